#!/usr/bin/env python3
"""Regenerates /verif/MANIFEST.json from the table below (kept in one place so that
claimed checks, levels and not_applicable reasons stay consistent)."""
import json
import os
import subprocess

VERIF = os.path.dirname(os.path.dirname(os.path.abspath(__file__)))

NA = {
    "C12": "pure function of (block, parameters): no schedule, clock, fault or I/O history for a simulator to own; deterministic simulation has nothing to decide (DESIGN.md section 5). Its gross failures surface through C01's round trips.",
    "C13": "pure single-threaded function of its input buffer: no seam for a simulator (DESIGN.md section 5). Its failures visible through the stream API surface under C01.",
    "C15": "pure function of configuration strings (DESIGN.md section 5); spelling variants are part of C01's configuration swarm.",
    "C16": "pure arithmetic function of a histogram (DESIGN.md section 5); the defect it had was found through C01 and fixed.",
}

SIM = "deterministic simulation: seeded scheduler over the library's real goroutines + "

CHECKS = {
    "C01": ("exploration",
            "Fault-free family of the simulator: real Writer and Reader run under the seeded scheduler with drawn jobs (both sides independently), Write partition, Read sizes and size hint (absent/exact/smaller/larger); the codec x data-shape dimension is seeded swarm sampling over all 19 transforms (chains 1-8, any letter case), 9 entropy codecs, 16 data shapes. Oracle: identity model, no error after construction. Sampling, not proof.",
            "Trusts the data-shape generators to reach the content detectors (probes report which shapes/codecs ran) and the simhook placement.",
            SIM + "seeded swarm over configurations, data shapes, Write/Read partitions and size hints; identity-model oracle"),
    "C02": ("exploration",
            "Fault injection on the stored bytes (bit flips, byte substitutions, swaps, 1-8 per stream, aimed inside block payloads by an independent parser of the container format) and inside the pipeline (a byte of a task-private buffer changed between hashing and coding, or between inverse transform and verification, via a hook), decoder jobs 1-8 under the scheduler, 0-5 further Read calls after the first error. Oracle: everything ever delivered is a prefix of the original; EOF only with the complete data; pipeline damage must be reported.",
            "A 32/64-bit checksum collision (probability 2^-32 per damaged block) is ignored. The container parser is validated against the writer on every case (probe parser.agrees).",
            SIM + "fault injection on stored bytes and in-pipeline buffers; prefix oracle over the whole call history"),
    "C03": ("exploration",
            "Structure-aware fault injection on stored bytes: mutations aimed at codec headers and tables (entropy NONE so transform headers are in the clear, transform NONE so entropy tables are at known offsets, full chains), forged container fields (length width/value, mode byte, announced size, early end marker), forged headers with recomputed checksum (block size, codec ids, output size, checksum width, version), truncation plus random tail, random bodies, splices, and blocks above 4 MiB with forged BWT primary indexes (helper goroutines). Decoder jobs 1-8 under the scheduler, further Reads after the first error. Oracle: no panic escapes, no deadlock (exact), step budget, and the worker process neither dies nor burns more than 60 s of CPU on one case (death/stall is attributed to the case in flight by start markers and confirmed by replaying it alone in a fresh process).",
            "Hangs inside codec loops have no yield point: they are bounded by a watchdog on the user CPU time of the worker (60 s per case, 180 s on confirmation; fault-free cases take milliseconds; system time is excluded because page faults are two orders of magnitude slower when sixteen workers fault at once). Forged block sizes are capped at 4 MiB (quick) / 16 MiB (thorough) so that legitimate allocation of declared sizes is not mistaken for a fault. A forged block length can legitimately make the decoder allocate up to 2 GiB (observation in DESIGN.md).",
            SIM + "structure-aware corruption of stored streams; process-level oracle (death, CPU stall) with per-case attribution and isolated replay"),
    "C04": ("exploration",
            "Each case fixes (data, codecs, block size, checksum, hint) and compares the sink bytes of 2-3 simulated runs (jobs 1-64, any Write partition, any bitstream buffer size, any schedule policy incl. starvation) with a jobs=1 single-Write reference run. Sampling over schedules: the evidence reports distinct schedule signatures.",
            "Interleavings are explored at hook granularity; the reference run is the same code with jobs=1.",
            SIM + "differential comparison of sink bytes across schedules, job counts and Write partitions"),
    "C05": ("exploration",
            "Valid streams decoded under the scheduler with decoder jobs 1-64 independent of the encoder, drawn Read sizes and input buffer size; must equal the original, then EOF. Second half: one block damaged (1-3 flips), then Read is called on after the error: with an error reported, all bytes ever delivered must be a prefix of the original that ends before the failed block.",
            "Without checksum and without a detected failure nothing is judged (the property does not promise anything there).",
            SIM + "fault injection (bit flips in one block) + post-error call histories; identity/prefix oracle"),
    "C06": ("exploration",
            "Short-read histories on the compressed side (constant chunk 1-24, random small, 1-byte, n-1, occasional short reads) injected by the simulated source, Read buffer lengths including 0 and 1, and partitions of the plain data into Write calls including all-1-byte; differential against the one-piece run (same bytes, EOF; identical sink bytes).",
            "Sources returning (0, nil) are not injected (io.Reader discourages them and the property does not speak about them).",
            SIM + "short-read fault injection at the simulated source; differential oracle against one-piece I/O"),
    "C07": ("exploration",
            "Every block task of the real Writer/Reader runs under the simulator's scheduler (6 policies incl. PCT-style priorities and starvation); faults: task failure at a named protocol step, sink/source errors (transient, permanent, torn), truncation, bit flips so that a task fails after publishing. The trace is checked online against the hand-off reference automaton (exclusive, in-order acquisition, I/O only by the holder, nothing after observing cancel, no acquisition by a task that loaded the counter after a failed task had posted the cancel and completed), deadlock detection is exact (no runnable task left), a failed task must surface as an error of the enclosing call, and no call may return while one of its block tasks is still running (the WaitGroup of the tasks is itself a seam: Add/Done/Wait are scheduled in code order).",
            "Trusts the placement of the simhook points in v2/io/CompressedStream.go (not for the join: that is the code's own WaitGroup) and the automaton in harness/model/handoff.go. Sampling, not proof.",
            SIM + "fault injection + refinement monitor (hand-off automaton) + exact deadlock detection"),
    "C08": ("fault_enumeration",
            "Per sampled scenario (stream shape x jobs 1-4 x call plan x bitstream buffer sizes x source delivering whole reads or chunks of a drawn size) the fault-free run counts the sink (Write+Close) or source (Read) calls, then the failure is injected at EVERY call index k (exhaustive over k), kind (transient / permanent / torn or with-data) drawn per k, caller retries Close/Read 0-2 times. Oracle: no panic escapes; a failed sink call is reported by that API call or a later one before success; Close()==nil only if the sink holds the complete stream; EOF only with complete data; delivered bytes always a prefix; a transient source failure that no call reports is accepted only if the reader obtained no further byte from the source after it (a read-ahead that was never needed).",
            "Exhaustive over the call index per scenario, sampled over scenarios and fault kinds. Torn writes are injected as permanent faults only.",
            SIM + "fault enumeration over every sink/source call index per scenario"),
    "C09": ("fault_enumeration",
            "Truncation = the simulated source ends after p bytes. For small streams (<= 4 KiB, a quarter of the cases) EVERY cut position 0..len-1 is run; otherwise all block boundaries +-2 bytes, header boundary, first 30 and last 17 positions and random ones (parser-aimed). Decoder jobs 1-8 under the scheduler. Oracle: the read loop ends with a non-EOF error and what was delivered is a prefix of the original.",
            "Exhaustive over cut positions for the small streams, sampled otherwise; full reads are served so that C06's dimension cannot interfere.",
            SIM + "fault enumeration over truncation points"),
    "C10": ("exploration",
            "Mixed-version simulation: the writer is a frozen snapshot of the pinned tree (harness/ref, real code under another import path), the reader is the current tree under the scheduler (jobs, schedule, Read sizes, buffer size from the tape). A pair is kept only if the reference encoder+decoder round-trip it (the property's precondition); oracle: current decode == reference decode. A tenth of the pairs use the large-block regime (one or two blocks of 150 KiB - 1 MiB, thorough up to 5 MiB, every transform kind) so that constants which only matter above some amount of data per block are exercised; a fifth use the boundary regime (the last block holds 2^k-1, 2^k or 2^k+1 bytes, k = 3..16), where codecs switch layout with the amount of data they are given. Plus a committed golden corpus of 123 streams produced by the reference (every transform, every entropy codec, checksum 0/32/64, header and headerless, chains, a 256 KiB-block BWT) with the SHA-256 of the originals: the first 123 cases of every run.",
            "The snapshot is the pinned commit 76efab5 (before any hook or fix). Reverse direction (current writer, reference reader) is not part of the property and is not judged.",
            SIM + "differential decoding across two code histories (pinned reference snapshot vs current tree) + fixed golden corpus"),
    "C11": ("exploration",
            "Streams of 0-12 blocks; for each, EVERY range 1 <= from <= to <= blocks+3 is decoded under the scheduler with drawn decoder jobs 1-8 and Read sizes; plus three ranges with bounds far beyond the last block (MaxInt32, 2^31, 2^32+3, 2^40, MaxInt as `to`, also as `from`); oracle: slice model D[(from-1)B : min((to-1)B, |D|)] then EOF. In a third of the cases blocks outside the range are damaged: a skipped block is never decoded, so the result must not change.",
            "Ranges exhaustive per sampled stream; streams, jobs and schedules sampled.",
            SIM + "exhaustive block ranges per sampled stream against a slice model; damaged skipped blocks as fault injection"),
    "C14": ("exploration",
            "Model-based: tape-generated programs over {WriteBit, WriteBits(1-64), WriteArray(k bits, any k, any alignment)} with internal buffer sizes 1024..64 KiB, lengths crossing 0-3 flush boundaries and bulk copies aimed at buffer edges, compared step by step with a one-byte-per-bit vector: Written()/Read() after every operation, the byte image at the simulated sink, mirrored or re-chunked read program, closed streams refuse. This property has no schedule or fault dimension: the simulator contributes the sink/source seam, the tape, replay and shrinking only.",
            "No concurrency in this layer; short reads at this layer are C06's business.",
            "model-based operation programs from the simulator's choice tape against a bit-vector reference model (no schedule dimension)"),
    "C17": ("exploration",
            "Tape-generated call histories on one Writer (Write of any length incl. 0 and block-aligned sizes, Close at any point and repeated, GetWritten) and on one Reader over the produced stream (Read of any length incl. 0, Close repeated, GetRead; the source delivers whole or short reads and the input bitstream buffer is drawn from 1 KiB to the default, so counters are observed across buffer refills), jobs 1-4 under the scheduler, a third of the headed streams with an advisory size hint at the values where the header's size field changes width, optionally one transient sink failure during Close; every return value is compared with a small lifecycle machine (open / close-failed / closed; bytes accepted; cursor) as the call returns.",
            "After a failed Close only Close/GetWritten are issued (the state is not specified by the property); a failure that hit a block task leaves the writer permanently failed, which is C08's business.",
            SIM + "random API call histories against a lifecycle reference machine"),
    "C18": ("exploration",
            "K = 2-4 (thorough: up to 8) driver tasks in one process, each compressing then decompressing its own stream (codecs weighted toward those with package-level tables: TEXT dictionary, CM/TPAQ/FPAQ tables, Huffman, BWT; thorough adds blocks above 4 MiB so the inverse-BWT helper goroutines run), all block tasks of all streams under ONE seeded scheduler (which also interleaves tasks between the stages of their transform chains and while their entropy codec objects are alive) plus the hand-off monitor per stream. The worker is built with -race and the simulator's baton is wrapped in runtime.RaceDisable, so the happens-before relation the detector judges is the library's own and the verdict is a function of the (replayable) schedule. The concurrent run comes first and the isolated reference runs afterwards, and every worker process is replaced after 3 cases, so that state the library initialises on first use meets concurrent first users again and again. Oracle: per instance, compressed and decoded bytes equal those of the same instance run alone; no race report (exit 66 is charged to the case in flight and confirmed by replaying it alone, or after the same preceding cases of its worker when the shared state is history-dependent).",
            "The race detector sees only the executions explored (sampling). Race builds are about 8x slower: fewer cases than the other checks.",
            SIM + "K concurrent pipelines under one scheduler, Go race detector with a baton invisible to it, differential oracle against isolated runs"),
    "C19": ("exploration",
            "The real CLI (main, argument parsing included) is built from the working tree with the hooks on and run as a child process on tape-generated trees (1-12 files, empty files, sub-directories) with levels 0-9 or explicit -t/-e, -b, -j, -x/-x64, --rm, -f, dir/file/stdin/stdout/output-dir targets (stdin also to named files that are absent, exist and are forced, or exist and must be refused). Families: fault-free round trip (scheduler on or off, short reads on the input; a third of the scheduled runs with a race-built tool whose reports are violations); safety (existing output without force in both directions; output equal to input directly, through a symlink and, for decompression, through another spelling of the path and a hard link); kill points: the run is first executed fault-free under the in-process seeded scheduler to count its events, then re-executed with the same seed and a self-SIGKILL at event k for every k (runs of <= 120 events) or for k around the application-level points (before/after close and remove, output close) plus random ones - after each kill, every source must still exist intact or its output must decode (library Reader in the parent) to it; sink failure: the wrapped output fails from the k-th write (disk full): exit status != 0, no crash, no source lost.",
            "SIGKILL model (completed system calls survive; kanzi never calls fsync, so a power-loss model has nothing to check). Kills happen at hook points and at every wrapped output call, not between arbitrary instructions; file-system state only changes at system calls, all of which lie between two such points. The trace of every killed run must be a prefix of the fault-free run (checked: determinism).",
            SIM + "real CLI under an in-process scheduler, crash (self-SIGKILL) at enumerated/sampled event indexes, disk-full injection, file-system oracle"),
}

ORDER = ["C01", "C02", "C03", "C04", "C05", "C06", "C07", "C08", "C09", "C10", "C11", "C12", "C13", "C14", "C15", "C16", "C17", "C18", "C19"]


def main():
    extra = {}
    p = os.path.join(VERIF, "ctl", "manifest_extra.json")
    if os.path.exists(p):
        extra = json.load(open(p))
    checks = []
    for pid in ORDER:
        if pid not in CHECKS:
            continue
        level, text, note, tech = CHECKS[pid]
        checks.append({
            "property_id": pid,
            "quick_cmd": "python3 ctl/ksimctl.py check %s --tier quick" % pid,
            "thorough_cmd": "python3 ctl/ksimctl.py check %s --tier thorough" % pid,
            "evidence_file": "/verif/evidence/%s.json" % pid,
            "replay_cmd_template": "python3 ctl/ksimctl.py replay {path}",
            "engine": "ksim",
            "level_claimed": {"category": level, "text": text, "design_ref": "DESIGN.md section 5, " + pid},
            "level_note": note,
            "technique": tech,
        })
    na = []
    for pid in ORDER:
        if pid in CHECKS:
            continue
        na.append({"property_id": pid, "reason": NA.get(pid, "check under construction in this session (claimed in DESIGN.md section 5); not registered until it runs clean")})
    commits = subprocess.run(["git", "-C", "/repo", "log", "--format=%h %s"], stdout=subprocess.PIPE, text=True).stdout.splitlines()
    hook_commits = [l.split()[0] for l in commits if l.split(" ", 1)[1].startswith("verif hooks")]
    m = {
        "version": 1,
        "setup_cmd": "./setup.sh",
        "hooks": {
            "guard": "verif (Go build tag)",
            "enable": "go1.26.8 build -tags verif from the harness module /verif/harness (replace github.com/flanglet/kanzi-go/v2 => /repo/v2)",
            "baseline_off_cmd": "for m in . ./v2; do (cd /repo/$m && go test -mod=mod -json -vet=off -count=1 -timeout 25m ./...); done",
            "source_commits": list(reversed(hook_commits)),
            "add_only": False,
            "add_only_note": "commits bfcb027, 2bcb00b, a775fed, 1cf3bb0 only add lines. 2a99400 replaces the type name sync.WaitGroup by simhook.WaitGroup on four lines of v2/io/CompressedStream.go (a type alias of sync.WaitGroup when the guard is off) and drops the then unused import; it also moves/deletes hook lines added by earlier hook commits. 8add45f touches only v2/internal/simhook.",
        },
        "engines": [{
            "name": "ksim", "path": "/verif/harness", "serves_properties": [c["property_id"] for c in checks],
            "kind_free_text": "deterministic simulation with fault injection: seeded scheduler over the library's real goroutines (hook points under build tag verif), simulated sink/source, fault plans, choice tape with replay and shrinking; orchestrated by ctl/ksimctl.py over 16 worker processes",
        }],
        "checks": checks,
        "not_applicable": na,
        "notes": "Every check rebuilds the worker from /repo's working tree with -tags verif. Exit 2 = harness/build trouble (never a violation). Known findings: KNOWN_FINDINGS.json. See DESIGN.md.",
    }
    m.update(extra)
    json.dump(m, open(os.path.join(VERIF, "MANIFEST.json"), "w"), indent=1)
    print("claimed:", [c["property_id"] for c in checks])


if __name__ == "__main__":
    main()
