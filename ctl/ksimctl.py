#!/usr/bin/env python3
"""ksimctl - orchestrator of the kanzi-go deterministic simulation checks.

  ksimctl.py check <Cxx> [--tier quick|thorough] [--seed N]
  ksimctl.py replay <file>
  ksimctl.py build [--race]

Exit codes: 0 property held on everything explored (known findings are listed),
1 violation (a line "VIOLATION property=<id> replay=<path>" is printed),
2 harness/build trouble (never reported as a violation).
"""
import argparse
import collections
import json
import os
import re
import subprocess
import sys
import time

VERIF = os.path.dirname(os.path.dirname(os.path.abspath(__file__)))
HARNESS = os.path.join(VERIF, "harness")
BIN = os.path.join(VERIF, "bin")
GO = "go1.26.8"
NPROC = int(os.environ.get("VERIF_WORKERS", "16"))

GOENV = dict(os.environ, GOFLAGS="-mod=mod", GOPROXY="off", GOSUMDB="off", GOTOOLCHAIN="local")

# per property: case caps and wall budgets (seconds per worker)
PLAN = {
    # id: (quick_cases, quick_budget, thorough_cases, thorough_budget)
    "default": (200000, 40, 20000000, 1200),
}

# properties whose cases contain many executions: the probe that counts them
SUBRUNS = {
    "C03": ["variants"],
    "C08": ["fault.points.writer", "fault.points.reader", "scenarios.writer", "scenarios.reader"],
    "C09": ["cuts"],
    "C11": ["ranges"],
}

LEVEL = {
    "C08": "fault_enumeration",
    "C09": "fault_enumeration",
}

REAL = ["v2/io (Writer, Reader, block tasks, hand-off protocol)", "v2/bitstream", "v2/transform", "v2/entropy", "v2/hash", "v2/internal"]
STUB = ["sink (io.WriteCloser) and source (io.ReadCloser): simulator objects", "goroutine scheduling decisions (the goroutines themselves are real)"]


def log(*a):
    print(*a, file=sys.stderr, flush=True)


def die2(msg):
    print("HARNESS-ERROR: " + msg, flush=True)
    sys.exit(2)


REPO = os.environ.get("VERIF_REPO", "/repo")


def modfile_args():
    """Checks always build against /repo. For the evaluation of seeded changes in a scratch worktree
    (so that /repo is not touched while other runs use it) VERIF_REPO points the module replacement
    elsewhere through an alternative go.mod."""
    if REPO == "/repo":
        return []
    os.makedirs(BIN, exist_ok=True)
    alt = os.path.join(BIN, "alt-%s.mod" % re.sub(r"\W+", "_", REPO))
    with open(os.path.join(HARNESS, "go.mod")) as f:
        mod = f.read().replace("=> /repo/v2", "=> %s/v2" % REPO)
    with open(alt, "w") as f:
        f.write(mod)
    open(alt[:-4] + ".sum", "a").close()
    return ["-modfile=" + alt]


def build(prop, race=False):
    os.makedirs(BIN, exist_ok=True)
    suffix = "" if REPO == "/repo" else "-" + re.sub(r"\W+", "_", REPO)
    out = os.path.join(BIN, "simrun-%s%s%s" % (prop, "-race" if race else "", suffix))
    tmp = out + ".tmp%d" % os.getpid()
    cmd = [GO, "build", "-tags", "verif"] + modfile_args()
    if race:
        cmd.append("-race")
    cmd += ["-o", tmp, "./cmd/simrun"]
    t0 = time.time()
    p = subprocess.run(cmd, cwd=HARNESS, env=GOENV, stdout=subprocess.PIPE, stderr=subprocess.STDOUT, text=True)
    if p.returncode != 0:
        die2("build failed:\n" + p.stdout[-4000:])
    os.replace(tmp, out)
    log("built %s in %.1fs" % (out, time.time() - t0))
    return out


def build_cli(race=False):
    """Builds the real CLI (package main of v2/app) from /repo's working tree with the hooks on and
    one extra file overlaid (it only adds a blank import of harness/cliinit). race=True: the same
    with the race detector (the scheduler's baton is invisible to it, as in C18)."""
    os.makedirs(BIN, exist_ok=True)
    suffix = "" if REPO == "/repo" else "-" + re.sub(r"\W+", "_", REPO)
    ov = os.path.join(BIN, "overlay%s.json" % suffix)
    with open(ov, "w") as f:
        json.dump({"Replace": {REPO + "/v2/app/zz_verif_init.go": os.path.join(VERIF, "overlay", "zz_verif_init.go")}}, f)
    out = os.path.join(BIN, "kanzi-cli" + ("-race" if race else "") + suffix)
    tmp = out + ".tmp%d" % os.getpid()
    p = subprocess.run([GO, "build", "-tags", "verif"] + (["-race"] if race else []) + modfile_args() + ["-overlay", ov, "-o", tmp, "github.com/flanglet/kanzi-go/v2/app"],
                       cwd=HARNESS, env=GOENV, stdout=subprocess.PIPE, stderr=subprocess.STDOUT, text=True)
    if p.returncode != 0:
        die2("CLI build failed:\n" + p.stdout[-4000:])
    os.replace(tmp, out)
    return out


def load_known():
    path = os.path.join(VERIF, "KNOWN_FINDINGS.json")
    if not os.path.exists(path):
        return []
    with open(path) as f:
        return json.load(f).get("findings", [])


def match_known(entry, prop, res):
    if entry.get("status") != "open" or prop not in entry.get("properties", [entry.get("property")]):
        return False
    if entry.get("class") and entry["class"] != res.get("class"):
        return False
    feats = set(res.get("feat") or [])
    for f in entry.get("feat_all", []):
        if f not in feats:
            return False
    if entry.get("feat_any"):
        if not any(f in feats for f in entry["feat_any"]):
            return False
    if entry.get("detail_regex") and not re.search(entry["detail_regex"], res.get("detail", "")):
        return False
    return True


def run_workers(binary, prop, seed, tier, ncases, budget, extra=None, samples=2):
    """Fan out over worker processes. A worker that dies (panic in a helper goroutine, fatal
    error, race report, CPU watchdog) is charged to the case it had announced with a start
    marker and not finished; the worker is then restarted after that case."""
    import threading
    w = min(WORKERS.get(prop, NPROC), NPROC, max(1, ncases))
    env = dict(os.environ, GOMAXPROCS=os.environ.get("VERIF_GOMAXPROCS", "1"))
    if "GORACE" not in env:
        env["GORACE"] = "halt_on_error=1 exitcode=66"
    results = []
    errs = []
    lock = threading.Lock()
    t_end = time.time() + budget
    casecpu = CASE_CPU.get(prop, CASE_CPU_DEFAULT)  # (VERIF_CASECPU, tests of the watchdog path only, changes the first stage; replays keep 3x the regular budget)
    if os.environ.get("VERIF_CASECPU"):
        casecpu = int(os.environ["VERIF_CASECPU"])

    chunk = PROCESS_CHUNK.get(prop, 0)

    def slot(i):
        frm = i
        restarts = 0
        first = True
        while frm < ncases:
            left = t_end - time.time()
            if left <= 0 and not first:
                return
            first = False
            upto = ncases if not chunk else min(ncases, frm + chunk * w)
            cmd = [binary, "-prop", prop, "-seed", str(seed), "-tier", tier, "-from", str(frm), "-to", str(upto),
                   "-step", str(w), "-budget", "%ds" % max(1, int(left)), "-samples", str(samples if (i == 0 and restarts == 0) else 0), "-mark"]
            if casecpu:
                cmd += ["-casecpu", "%ds" % casecpu]
            if extra:
                cmd += extra
            p = subprocess.Popen(cmd, stdout=subprocess.PIPE, stderr=subprocess.PIPE, env=env)
            try:
                out, err = p.communicate(timeout=max(1, left) + 900)
            except subprocess.TimeoutExpired:
                p.kill()
                out, err = p.communicate()
                with lock:
                    errs.append("worker %d: watchdog timeout (a case blocked for real)\n%s" % (i, err.decode(errors="replace")[-2000:]))
                return
            started = None
            done = set()
            local = []
            for line in out.splitlines():
                if not line.strip():
                    continue
                try:
                    r = json.loads(line)
                except Exception:
                    continue
                if "start" in r and len(r) == 1:
                    started = r["start"]
                else:
                    local.append(r)
                    done.add(r.get("i"))
            with lock:
                results.extend(local)
            if p.returncode == 0:
                if chunk and upto < ncases:
                    # fresh process for the next few cases (first-use initialisation runs again)
                    frm = upto
                    continue
                return
            etxt = err.decode(errors="replace")
            if started is None or started in done:
                with lock:
                    errs.append("worker %d exited with %s outside any case\n%s" % (i, p.returncode, etxt[-3000:]))
                return
            cls = "process-died"
            if p.returncode == 3 and '"hang"' in etxt:
                cls = "hang"
            elif p.returncode == 66 or "WARNING: DATA RACE" in etxt:
                cls = "data-race"
            detail = summarize_death(etxt, p.returncode)
            if cls == "process-died" and harness_only_panic(etxt):
                # a Go panic whose goroutine has no frame of the library: a defect of the harness itself
                # (oracle arithmetic, index error): never a verdict about the property
                with lock:
                    errs.append("worker %d: the harness itself panicked in case %d (no library frame in the panicking goroutine)\n%s" % (i, started, etxt[-3000:]))
                return
            with lock:
                results.append({"prop": prop, "i": started, "v": "fail", "class": cls, "detail": detail, "feat": death_feat(etxt), "ev": 0, "tasks": 0, "nt": True, "tape": None, "tl": 0, "stderr": etxt[-6000:],
                                "context": {"from": frm, "step": w}})
            frm = started + w
            restarts += 1
            if restarts > 50:
                with lock:
                    errs.append("worker %d: more than 50 process deaths, giving up" % i)
                return

    threads = [threading.Thread(target=slot, args=(i,)) for i in range(w)]
    for th in threads:
        th.start()
    for th in threads:
        th.join()
    return results, errs


def summarize_death(etxt, rc):
    lines = [l for l in etxt.splitlines() if l.strip()]
    key = [l for l in lines if l.startswith("panic:") or l.startswith("fatal error:") or "DATA RACE" in l or l.startswith('{"hang"')]
    head = key[0] if key else (lines[0] if lines else "")
    return ("worker process ended with exit status %s: %s" % (rc, head))[:500]


def harness_only_panic(etxt):
    """True iff the output is a Go panic (not a fatal error, not a signal) and the stack of the panicking
    goroutine - the first one printed - contains no function of the library under test."""
    lines = etxt.splitlines()
    start = None
    for j, l in enumerate(lines):
        if l.startswith("panic:"):
            start = j
            break
    if start is None or any(l.startswith("fatal error:") for l in lines):
        return False
    g = None
    for j in range(start, len(lines)):
        if lines[j].startswith("goroutine "):
            g = j
            break
    if g is None:
        return False
    frames = []
    for l in lines[g + 1:]:
        if not l.strip():
            break
        frames.append(l)
    if not frames:
        return False
    return not any("kanzi-go/v2/" in l and "verifharness" not in l for l in frames)


def death_feat(etxt):
    """Features of a process death used to group failures: the first library frame of the stack."""
    feats = []
    lines = etxt.splitlines()
    for j, l in enumerate(lines):
        if "kanzi-go/v2/" in l and "verifharness" not in l and "(" in l:
            fn = l.strip().split("(")[0].split("/")[-1]
            feats.append("at:" + fn)
            break
    return feats


# CPU budget per case (seconds). Cases take milliseconds to a few seconds; a task that never reaches
# its next hook point (a real spin inside the library) is a violation of termination, reported as
# class "hang" and confirmed by replaying the case alone with three times the budget.
CASE_CPU = {"C03": 90, "C18": 240, "C19": 600}
CASE_CPU_DEFAULT = 45
# race builds fault so many pages (shadow memory is reset on every free) that more than a few
# processes only contend in this VM: measured 2.4 cases/s with 1 worker, 2.0 cases/s with 4, 1.9 with 16
WORKERS = {"C18": 4}
# C18: a worker process handles only this many cases and is then replaced by a fresh one, so that
# code which initialises package-level state on first use is met by concurrent first users again
# and again (one long-lived process would meet it once)
PROCESS_CHUNK = {"C18": 3}


def shrink_and_confirm(binary, prop, seed, tier, res):
    """Write the replay file, minimise it, replay it in a fresh process. Returns (path, confirmed, final_result)."""
    rdir = os.path.join(VERIF, "replays")
    os.makedirs(rdir, exist_ok=True)
    path = os.path.join(rdir, "%s-%d-%d.json" % (prop, seed, res["i"]))
    rf = {"engine": "ksim-1", "property": prop, "seed": seed, "case": res["i"], "tier": tier, "class": res.get("class", ""),
          "detail": res.get("detail", ""), "feat": res.get("feat") or [], "tape": res["tape"], "shrunk": False}
    if res.get("context"):
        rf["context"] = res["context"]
    with open(path, "w") as f:
        json.dump(rf, f)
    env = dict(os.environ, GOMAXPROCS="1")
    if "GORACE" not in env:
        env["GORACE"] = "halt_on_error=1 exitcode=66"
    dead = rf["class"] in ("process-died", "hang", "data-race")
    cpu = ["-casecpu", "%ds" % (3 * CASE_CPU.get(prop, CASE_CPU_DEFAULT))] if dead else []
    if rf["class"] == "hang":
        # no minimisation (every candidate would cost the whole budget): the case is confirmed by one isolated replay
        p = subprocess.run([binary, "-replay", path] + cpu, stdout=subprocess.PIPE, stderr=subprocess.PIPE, env=env, timeout=3600)
        etxt = p.stderr.decode(errors="replace")
        again = p.returncode == 3 and '"hang"' in etxt
        final = dict(res)
        if not again and res.get("context"):
            again = context_replay(binary, prop, seed, tier, res, env, "hang")
            if again:
                final["detail"] = (final.get("detail") or "") + " [recurs only with the history of its worker process: cases %d, %d, ... before it (the library reads memory left by earlier work)]" % (res["context"]["from"], res["context"]["from"] + res["context"]["step"])
        return path, again, final, "" if again else "the case finished (exit %s) when replayed alone with three times the CPU budget, and also when replayed after the same preceding cases" % p.returncode
    if rf["class"] == "data-race":
        # the verdict of the race detector is confirmed by replaying the case alone; no shrinking
        p = subprocess.run([binary, "-replay", path], stdout=subprocess.PIPE, stderr=subprocess.PIPE, env=env, timeout=1800)
        etxt = p.stderr.decode(errors="replace")
        ok = p.returncode == 66 or "WARNING: DATA RACE" in etxt
        final = dict(res)
        if not ok and res.get("context"):
            # state shared between cases of one process (package-level pools, caches) is part of the
            # history: replay the case after the same preceding cases
            for attempt in range(RACE_RETRIES):
                # runtime-managed shared state (sync.Pool, which drops a random quarter of the Puts in
                # race builds, and GC timing) is not under the simulator's control: the history replay
                # is tried several times before giving up
                ok = context_replay(binary, prop, seed, tier, res, env, "data-race")
                if ok:
                    break
            if not ok:
                # keep the report itself: it names both accesses and is not produced without a race
                try:
                    with open(path + ".race.txt", "w") as f:
                        f.write(res.get("stderr", ""))
                except Exception:
                    pass
            if ok:
                final["detail"] = (final.get("detail") or "") + " [recurs only after the cases that preceded it in its worker process: state shared between streams of one process]"
        return path, ok, final, "" if ok else "the race report did not recur when the case was replayed alone nor after the same preceding cases"
    p = subprocess.run([binary, "-shrink", path] + cpu, stdout=subprocess.PIPE, stderr=subprocess.PIPE, env=env, timeout=1800)
    if p.returncode == 3:
        if dead and res.get("context") and context_replay(binary, prop, seed, tier, res, env, rf["class"]):
            final = dict(res)
            final["detail"] = (final.get("detail") or "") + " [recurs only with the history of its worker process: cases %d, %d, ... before it]" % (res["context"]["from"], res["context"]["from"] + res["context"]["step"])
            with open(path, "w") as f:
                json.dump(rf, f)
            return path, True, final, ""
        if "exit status -9" in (res.get("detail") or ""):
            return path, False, None, "killed-from-outside: the worker was killed by SIGKILL and the case completes when replayed alone and after the same preceding cases"
        return path, False, None, "the recorded tape does not reproduce the failure (shrink step)"
    if p.returncode != 0:
        etxt = p.stderr.decode(errors="replace")
        if "panic:" in etxt or "fatal error:" in etxt or p.returncode == 66:
            # a candidate tape made the shrinker's own process die (a shorter program can reach a crash
            # the recorded one only grazed): the recorded tape is kept as it is and confirmed below
            with open(path, "w") as f:
                json.dump(rf, f)
        else:
            return path, False, None, "shrinker failed: " + etxt[-1500:]
    p = subprocess.run([binary, "-replay", path] + cpu, stdout=subprocess.PIPE, stderr=subprocess.PIPE, env=env, timeout=1800)
    if dead:
        # the violation is the death / stall of the process itself: it must recur in a fresh process
        etxt = p.stderr.decode(errors="replace")
        again = (p.returncode == 3 and '"hang"' in etxt) if rf["class"] == "hang" else (p.returncode not in (0, 1, 3))
        if not again and res.get("context"):
            again = context_replay(binary, prop, seed, tier, res, env, rf["class"])
        final = dict(res)
        final["detail"] = summarize_death(etxt, p.returncode) if again else res.get("detail")
        return path, again, final, "" if again else "the process survived when the minimised tape was replayed alone (exit %s)" % p.returncode
    try:
        final = json.loads(p.stdout.decode().strip().splitlines()[-1])
    except Exception:
        return path, False, None, "replay produced no result: " + p.stderr.decode(errors="replace")[-1500:]
    ok = final.get("v") == "fail" and final.get("class") == rf["class"]
    return path, ok, final, "" if ok else "replay of the minimised tape gave %s/%s instead of fail/%s" % (final.get("v"), final.get("class"), rf["class"])


RACE_RETRIES = 8


def context_replay(binary, prop, seed, tier, res, env, cls):
    """Replays a process-level failure together with the cases that preceded it in its worker process
    (same indices, same order, fresh process): the library may read memory left by earlier work, which
    is part of the history of the execution, not of the case alone."""
    c = res["context"]
    cmd = [binary, "-prop", prop, "-seed", str(seed), "-tier", tier, "-from", str(c["from"]), "-to", str(res["i"] + 1),
           "-step", str(c["step"]), "-mark", "-casecpu", "%ds" % (3 * CASE_CPU.get(prop, CASE_CPU_DEFAULT))]
    try:
        p = subprocess.run(cmd, stdout=subprocess.PIPE, stderr=subprocess.PIPE, env=env, timeout=7200)
    except subprocess.TimeoutExpired:
        return False
    started = None
    done = set()
    for line in p.stdout.splitlines():
        try:
            r = json.loads(line)
        except Exception:
            continue
        if "start" in r and len(r) == 1:
            started = r["start"]
        else:
            done.add(r.get("i"))
    if started != res["i"] or started in done:
        return False
    etxt = p.stderr.decode(errors="replace")
    if cls == "hang":
        return p.returncode == 3 and '"hang"' in etxt
    if cls == "data-race":
        return p.returncode == 66 or "WARNING: DATA RACE" in etxt
    return p.returncode not in (0, 1, 3)


def neutral_passes(binary, path, fid):
    env = dict(os.environ, GOMAXPROCS="1")
    p = subprocess.run([binary, "-replay", path, "-neutralise", fid], stdout=subprocess.PIPE, stderr=subprocess.PIPE, env=env, timeout=900)
    try:
        final = json.loads(p.stdout.decode().strip().splitlines()[-1])
    except Exception:
        return False
    return final.get("v") in ("ok", "skip")


def check(prop, tier, seed):
    t0 = time.time()
    race = prop == "C18"
    binary = build(prop, race=race)
    if prop == "C19":
        os.environ["KSIM_CLI"] = build_cli()
        os.environ["KSIM_CLI_RACE"] = build_cli(race=True)
        scratch = os.path.join(os.environ.get("TMPDIR", "/tmp"), "ksim-c19-%d" % os.getpid())
        os.makedirs(scratch, exist_ok=True)
        os.environ["KSIM_SCRATCH"] = scratch
    plan = PLAN.get(prop, PLAN["default"])
    ncases, budget = (plan[0], plan[1]) if tier == "quick" else (plan[2], plan[3])
    if os.environ.get("VERIF_BUDGET"):
        budget = int(os.environ["VERIF_BUDGET"])
    if os.environ.get("VERIF_CASES"):
        ncases = int(os.environ["VERIF_CASES"])
    results, errs = run_workers(binary, prop, seed, tier, ncases, budget)
    wall_run = time.time() - t0

    if errs:
        for e in errs:
            print("HARNESS-ERROR: " + e, flush=True)
    n = len(results)
    fails = [r for r in results if r["v"] == "fail"]
    skips = [r for r in results if r["v"] == "skip"]
    oks = [r for r in results if r["v"] == "ok"]

    faults = collections.Counter()
    probes = collections.Counter()
    events = 0
    tasks = 0
    distinct = set()
    scheds = set()
    cfgs = set()
    codecs = collections.Counter()
    for r in results:
        for k, v in (r.get("faults") or {}).items():
            faults[k] += v
        for k, v in (r.get("probes") or {}).items():
            probes[k] += v
        events += r.get("ev", 0)
        tasks += r.get("tasks", 0)
        if r.get("nt"):
            distinct.add((r.get("cfg"), r.get("ss")))
        if r.get("ss"):
            scheds.add(r["ss"])
        if r.get("cfg"):
            cfgs.add(r["cfg"])

    # saturation of the schedule space for small batches: among the cases with at most 3 block tasks
    # (4 tasks with the driver), how many distinct schedule signatures, and how many of them were first
    # seen in the last quarter of those cases (0 = the sampled space has stopped growing)
    small = [r for r in sorted(results, key=lambda r: r.get("i", 0)) if r.get("ss") and 1 < r.get("tasks", 0) <= 4]
    seen_small = set()
    new_last_quarter = 0
    for j, r in enumerate(small):
        if r["ss"] not in seen_small:
            seen_small.add(r["ss"])
            if j >= 3 * len(small) // 4:
                new_last_quarter += 1
    saturation = {"cases_with_at_most_3_block_tasks": len(small), "distinct_schedule_signatures": len(seen_small),
                  "first_seen_in_last_quarter": new_last_quarter}

    known = load_known()
    violations = []
    known_hits = collections.OrderedDict()
    harness_err = bool(errs)

    # group failures by (class, feat) and handle a few representatives of each group
    # failures are grouped by violation class and panic site (the codec/shape features are kept for
    # the attribution to known findings only); at most MAX_GROUPS groups are minimised and confirmed,
    # the others are listed by count - one confirmed violation is enough to fail the check
    groups = collections.OrderedDict()
    for r in sorted(fails, key=lambda r: (r.get("tl", 0), r["i"])):
        site = tuple(f for f in (r.get("feat") or []) if f.startswith(("panic@", "at:")))
        if any(e.get("status") == "open" for e in known):
            # with open findings every feature set is its own group, so that a new violation of the
            # same class is never attributed to a known one through a shared representative
            site = tuple(r.get("feat") or [])
        key = (r.get("class"), site)
        groups.setdefault(key, []).append(r)
    MAX_GROUPS = 6
    MAX_HANG_REPLAYS = 16
    slow_cases = []
    if len(groups) > MAX_GROUPS:
        extra = list(groups.items())[MAX_GROUPS:]
        print("NOTE: %d more failure groups not minimised: %s" % (len(extra), ", ".join("%s x%d" % (k[0], len(v)) for k, v in extra[:12])), flush=True)
        groups = collections.OrderedDict(list(groups.items())[:MAX_GROUPS])

    for key, rs in groups.items():
        if key[0] and key[0].startswith("harness"):
            harness_err = True
            print("HARNESS-ERROR: case %d: %s: %s" % (rs[0]["i"], rs[0].get("class"), rs[0].get("detail")), flush=True)
            continue
        handled = False
        # a CPU-watchdog verdict is the one place where time enters: every member of a "hang" group is
        # replayed (not only three), because a member that completes on replay says nothing about the others
        members = rs[:MAX_HANG_REPLAYS] if key[0] == "hang" or (key[0] == "process-died" and "exit status -9" in (rs[0].get("detail") or "")) else rs[:3]
        if key[0] == "hang" and len(rs) > MAX_HANG_REPLAYS:
            harness_err = True
            print("HARNESS-ERROR: property=%s: %d cases exceeded their CPU budget, more than can be replayed one by one" % (prop, len(rs)), flush=True)
        for r in members:
            try:
                path, ok, final, why = shrink_and_confirm(binary, prop, seed, tier, r)
            except subprocess.TimeoutExpired:
                path, ok, final, why = None, False, None, "minimisation timed out"
            if not ok and key[0] == "process-died" and why.startswith("killed-from-outside"):
                # SIGKILL is never raised by the library or the Go runtime: the kernel (memory pressure
                # from other jobs on the machine) or an operator killed the worker; the same deterministic
                # execution completes when replayed, alone and with its history
                slow_cases.append(r["i"])
                print("NOTE: property=%s case=%d: its worker was killed by SIGKILL from outside; the case completes when replayed alone and with its history" % (prop, r["i"]), flush=True)
                continue
            if not ok and key[0] == "hang" and why.startswith("the case finished"):
                # the same deterministic execution terminated, alone (three times the budget) and after
                # the same preceding cases: it was slow in a loaded worker, it does not hang
                slow_cases.append(r["i"])
                print("NOTE: property=%s case=%d exceeded its CPU budget in a loaded worker and finished when replayed alone and with its history: slow, not a hang" % (prop, r["i"]), flush=True)
                try:
                    os.remove(path)
                except OSError:
                    pass
                continue
            if not ok:
                harness_err = True
                print("HARNESS-ERROR: property=%s case=%d class=%s does not reproduce from its own tape: %s (replay file %s)" % (prop, r["i"], r.get("class"), why, path), flush=True)
                continue
            hit = None
            for e in known:
                if match_known(e, prop, final) and neutral_passes(binary, path, e["id"]):
                    hit = e
                    break
            if hit is not None:
                ent = known_hits.setdefault(hit["id"], {"entry": hit, "count": 0, "example": path})
                ent["count"] += len(rs)
                handled = True
                break
            violations.append((path, final, len(rs)))
            handled = True
            break
        if not handled and not harness_err and not (key[0] in ("hang", "process-died") and all(r["i"] in slow_cases for r in members)):
            harness_err = True

    for fid, ent in known_hits.items():
        print("KNOWN-FINDING: property=%s %s: %s (%d cases in this run, e.g. %s)" % (prop, fid, ent["entry"].get("what", ent["entry"].get("description", "")), ent["count"], os.path.relpath(ent["example"], VERIF)), flush=True)
    for path, final, cnt in violations:
        print("VIOLATION property=%s replay=%s" % (prop, os.path.relpath(path, VERIF)), flush=True)
        print("  class=%s cases=%d detail=%s" % (final.get("class"), cnt, final.get("detail")), flush=True)

    wall = time.time() - t0
    samples = []
    for r in results:
        if r.get("render") and r["v"] == "ok" and len(samples) < 2:
            rd = dict(r["render"])
            if "trace" in rd and len(rd["trace"]) > 80:
                rd["trace"] = rd["trace"][:80] + ["... (%d events)" % len(r["render"]["trace"])]
            samples.append({"case": r["i"], "config_signature": r.get("cfg"), "events": r.get("ev"), "tasks": r.get("tasks"), "tape_len": r.get("tl"), "rendering": rd})
    if not samples:
        for r in results[:2]:
            samples.append({"case": r["i"], "config_signature": r.get("cfg"), "events": r.get("ev"), "verdict": r["v"]})

    zero_probes = sorted(k for k in EXPECTED_PROBES.get(prop, []) if probes.get(k, 0) == 0)
    ev = {
        "property_id": prop,
        "tier": tier,
        "seed": seed,
        "level": LEVEL.get(prop, "exploration"),
        "coverage": {
            "evaluations": sum(probes.get(k, 0) for k in SUBRUNS[prop]) if prop in SUBRUNS else n,
            "cases": n,
            "distinct_nontrivial": len(distinct),
            "rule": RULES.get(prop, "cases are drawn from a choice tape seeded by hash(VERIF_SEED, property, case index); a case is non-trivial when it ran at least one block task under the seeded scheduler; distinct = distinct (configuration signature, schedule signature) pairs, the schedule signature being a hash of the (task, hook point) event sequence"),
            "samples": samples,
            "ok": len(oks),
            "skipped": len(skips),
            "failed_cases": len(fails) - len(slow_cases),
            "slow_under_load_completed_on_replay": len(slow_cases),
            "simulated_events": events,
            "simulated_tasks": tasks,
            "distinct_schedule_signatures": len(scheds),
            "distinct_configurations": len(cfgs),
            "small_batch_schedule_saturation": saturation,
            "faults_fired": dict(sorted(faults.items())),
            "probes": dict(sorted(probes.items())),
            "probes_at_zero": zero_probes,
            "runs_per_hour": int(n / max(wall_run, 1e-9) * 3600),
            "events_per_hour": int(events / max(wall_run, 1e-9) * 3600),
            "workers": min(WORKERS.get(prop, NPROC), NPROC, max(1, ncases)),
            "components_real": REAL_ONLY.get(prop, REAL + REAL_EXTRA.get(prop, [])),
            "components_stub": STUB + STUB_EXTRA.get(prop, []),
            "known_findings_hit": {k: v["count"] for k, v in known_hits.items()},
            "exhaustive": False,
        },
        "assumptions": ASSUMPTIONS.get(prop, []) + [
            "interleavings are explored at the granularity of the simhook points (every access to the shared block counter, every sink/source call, WaitGroup waits, the boundaries of transform stages and of the entropy codec's life in each block task)",
            "execution is sequentially consistent (tasks run one at a time); non-atomic sharing is C18's business",
        ],
        "wall_s": round(wall, 2),
        "violations": len(violations),
    }
    evdir = os.path.join(VERIF, "evidence" if REPO == "/repo" else "evidence-scratch")
    os.makedirs(evdir, exist_ok=True)
    with open(os.path.join(evdir, prop + ".json"), "w") as f:
        json.dump(ev, f, indent=1)
    log("%s %s seed=%d: %d cases (%d ok, %d skip, %d fail) %d events, %d distinct schedules, %.1fs" % (prop, tier, seed, n, len(oks) + len(slow_cases), len(skips), len(fails) - len(slow_cases), events, len(scheds), wall))
    if prop == "C19":
        import shutil
        shutil.rmtree(os.environ.get("KSIM_SCRATCH", "/nonexistent"), ignore_errors=True)
    if violations:
        sys.exit(1)
    if harness_err or n == 0:
        if n == 0:
            print("HARNESS-ERROR: no case was executed", flush=True)
        sys.exit(2)
    sys.exit(0)


GEN = "cases are drawn from a choice tape seeded by hash(VERIF_SEED, property, case index); "
RULES = {
    "C03": GEN + "a case is one valid stream (or a > 4 MiB BWT block) plus 4-8 independently mutated variants of it, each decoded under the scheduler (evaluations = decodes); non-trivial = every case; distinct = distinct (family, configuration, schedule signature) triples",
    "C19": GEN + "a case is one file tree + option set + family (round trip / safety / kill points / sink failure) and several runs of the real CLI; kill-point cases first run fault-free under the in-process scheduler to count the events, then re-run with a self-SIGKILL at each chosen event (every event when the run has <= 120 events); simulated_events counts the events of all CLI runs; distinct = distinct (family, options, tree size) signatures",
    "C08": GEN + "a case is one scenario plus one simulated execution per sink/source call index of its fault-free run (evaluations = executions); non-trivial = the scenario makes at least one sink/source call; distinct = distinct (configuration signature, schedule signature) pairs",
    "C09": GEN + "a case is one valid stream plus one simulated decode per cut position (evaluations = decodes); every cut of streams <= 4 KiB in a quarter of the cases; distinct = distinct (configuration signature, schedule signature) pairs of cases with at least one cut",
    "C11": GEN + "a case is one stream of 0-12 blocks plus one simulated decode per block range (evaluations = decodes, all ranges 1<=from<=to<=blocks+3 plus three far-bound ranges); distinct = distinct (configuration, schedule signature) pairs",
    "C14": GEN + "a case is one bit-level operation program (write side, then mirrored or re-chunked read side); non-trivial = more than 64 bits written; distinct = distinct (buffer sizes, program hash) pairs; this property has no schedule dimension",
}
ASSUMPTIONS = {
    "C18": ["worker built with -race; channel operations of the simulator baton are wrapped in runtime.RaceDisable/RaceEnable so they add no happens-before edge", "a race report is a verdict on the happens-before relation of the explored execution, not on physical overlap"],
    "C02": ["a checksum collision on a damaged block (2^-32 / 2^-64) is ignored"],
    "C14": ["single-threaded layer: no schedule or fault dimension; the simulator provides the sink/source seam, tape, replay and shrinking"],
}
EXPECTED_PROBES = {
    "C01": ["blocks", "tiny.input", "chain.gt4", "headerless"],
    "C02": ["damage.reported", "damage.harmless", "parser.agrees"],
    "C03": ["rejected.with.error", "decoded.to.eof", "big.bwt.blocks"],
    "C10": ["corpus.entries", "differential.pairs"],
    "C18": ["instances"],
    "C19": ["cli.runs", "cli.runs.race.build", "stdin.named.file", "safety.decompress.onto.itself", "kill.exhaustive.runs", "kill.source.gone.output.good", "safety.cases"],
    "C05": ["failed.block.reported", "damage.undetected.nochecksum", "parser.agrees"],
    "C06": ["src.short.not.multiple.of.8", "write.1byte"],
    "C07": ["handoff.cancel.observed", "handoff.failed.tasks", "handoff.io.by.holder", "handoff.end.of.stream.task", "sink.fault.while.task.holds", "src.fault.while.task.holds"],
    "C08": ["fault.during.close", "fault.during.write", "src.fault.inside.block.task", "close.retry.delivered.everything", "fault.survived.complete.data"],
    "C09": ["exhaustive.streams", "cuts"],
    "C11": ["range.empty", "range.beyond.end", "batch.all.skipped", "range.avoiding.damaged.blocks", "range.far.bound"],
    "C14": ["crosses.flush.boundary", "read.rechunked"],
    "C17": ["close.failed.then.retried", "close.repeated", "write.after.close.refused", "read.after.close.refused", "closed.without.data"],
}
REAL_EXTRA = {"C19": ["v2/app: the real CLI (package main, argument parsing included) built from the working tree; all its goroutines (file workers and block tasks) run under the in-process scheduler when KSIM_SEED is set"], "C10": ["harness/ref: frozen copy of the pinned v2 tree (commit 76efab5) - reference Writer and Reader, real code, plain goroutines"]}
STUB_EXTRA = {"C19": ["process death: the simulated CLI SIGKILLs itself at the k-th simulation event (SIGKILL model: completed system calls survive; kanzi never calls fsync)", "file system: the real kernel file system in a scratch directory removed after each case", "disk full: the wrapped output file fails from the k-th write on"]}
REAL_ONLY = {"C14": ["v2/bitstream (DefaultOutputBitStream, DefaultInputBitStream)"]}


def replay(path):
    """Re-executes a replay file from its tape alone (in a fresh worker built from /repo's working
    tree) and reports whether the recorded violation recurs: exit 1 + VIOLATION line if it does."""
    with open(path) as f:
        rf = json.load(f)
    prop = rf["property"]
    binary = build(prop, race=(prop == "C18"))
    if prop == "C19":
        os.environ["KSIM_CLI"] = build_cli()
        os.environ["KSIM_CLI_RACE"] = build_cli(race=True)
    env = dict(os.environ, GOMAXPROCS="1")
    if "GORACE" not in env:
        env["GORACE"] = "halt_on_error=1 exitcode=66"
    cls = rf.get("class", "")
    cmd = [binary, "-replay", path]
    if cls in ("hang", "process-died"):
        cmd += ["-casecpu", "%ds" % (3 * CASE_CPU.get(prop, CASE_CPU_DEFAULT))]
    p = subprocess.run(cmd, stdout=subprocess.PIPE, stderr=subprocess.PIPE, env=env)
    etxt = p.stderr.decode(errors="replace")
    again = None
    if cls == "hang":
        again = p.returncode == 3 and '"hang"' in etxt
    elif cls == "data-race":
        again = p.returncode == 66 or "WARNING: DATA RACE" in etxt
    elif cls == "process-died":
        again = p.returncode not in (0, 1, 3)
    if again is False and rf.get("context") and cls in ("hang", "process-died", "data-race"):
        for attempt in range(RACE_RETRIES if cls == "data-race" else 1):
            again = context_replay(binary, prop, rf["seed"], rf["tier"], {"i": rf["case"], "context": rf["context"]}, env, cls)
            if again:
                break
    if again is not None:
        print(json.dumps({"prop": prop, "class": cls, "exit_status": p.returncode, "recurs": again, "stderr_head": summarize_death(etxt, p.returncode)}, indent=1))
        if again:
            print("VIOLATION property=%s replay=%s" % (prop, path))
            sys.exit(1)
        sys.exit(0)
    try:
        final = json.loads(p.stdout.decode().strip().splitlines()[-1])
    except Exception:
        die2("replay produced no result (exit status %s): %s" % (p.returncode, etxt[-800:]))
    print(json.dumps({k: final.get(k) for k in ("prop", "v", "class", "detail", "feat", "ev", "tasks")}, indent=1))
    if final.get("v") == "fail":
        print("VIOLATION property=%s replay=%s" % (prop, path))
        sys.exit(1)
    sys.exit(0)


def main():
    ap = argparse.ArgumentParser()
    sub = ap.add_subparsers(dest="cmd", required=True)
    c = sub.add_parser("check")
    c.add_argument("prop")
    c.add_argument("--tier", default=os.environ.get("VERIF_TIER", "quick"))
    c.add_argument("--seed", type=int, default=int(os.environ.get("VERIF_SEED", "1")))
    r = sub.add_parser("replay")
    r.add_argument("file")
    b = sub.add_parser("build")
    b.add_argument("--race", action="store_true")
    a = ap.parse_args()
    if a.cmd == "check":
        check(a.prop, a.tier, a.seed)
    elif a.cmd == "replay":
        replay(a.file)
    elif a.cmd == "build":
        build("all", race=a.race)


if __name__ == "__main__":
    main()
