#!/usr/bin/env python3
"""Applies a seeded change to /repo, runs the named checks, and ALWAYS restores /repo.

  mutant_eval.py <patch.diff> --props C07,C05 [--budget 40] [--tier quick] [--suite]

Prints a JSON summary: per property the exit status and the violation classes reported.
--suite also runs the repository's own test suite with the change applied (must pass for a
valid seeded change)."""
import argparse
import json
import os
import re
import subprocess
import sys
import time

VERIF = os.path.dirname(os.path.dirname(os.path.abspath(__file__)))


def sh(cmd, **kw):
    return subprocess.run(cmd, shell=True, stdout=subprocess.PIPE, stderr=subprocess.STDOUT, text=True, **kw)


def main():
    ap = argparse.ArgumentParser()
    ap.add_argument("patch")
    ap.add_argument("--props", required=True)
    ap.add_argument("--budget", type=int, default=40)
    ap.add_argument("--tier", default="quick")
    ap.add_argument("--suite", action="store_true")
    ap.add_argument("--seed", type=int, default=1)
    ap.add_argument("--scratch", action="store_true", help="evaluate in a scratch worktree instead of /repo")
    a = ap.parse_args()
    patch = os.path.abspath(a.patch)
    # hook commits made after a change was written may touch its context lines: a rebased copy of
    # the patch (same change, current hook layout) is kept next to the original
    rebased = os.path.join(os.path.dirname(patch), "patch_rebased.diff")
    if os.path.basename(patch) == "patch.diff" and os.path.exists(rebased):
        patch = rebased
    if a.scratch:
        # evaluation in a scratch worktree: /repo is not touched (used while long runs build from /repo)
        wt = "/tmp/ksim-scratch-%d" % os.getpid()
        r = sh("git -C /repo worktree add -q %s HEAD && git -C %s apply --whitespace=nowarn %s" % (wt, wt, patch))
        out = {"patch": patch, "scratch": wt, "results": {}}
        try:
            if r.returncode != 0:
                print("cannot prepare the scratch worktree:\n" + r.stdout)
                sys.exit(2)
            for prop in a.props.split(","):
                t0 = time.time()
                env = dict(os.environ, VERIF_BUDGET=str(a.budget), VERIF_SEED=str(a.seed), VERIF_REPO=wt)
                p = subprocess.run([sys.executable, os.path.join(VERIF, "ctl", "ksimctl.py"), "check", prop, "--tier", a.tier],
                                   cwd=VERIF, env=env, stdout=subprocess.PIPE, stderr=subprocess.PIPE, text=True)
                classes = re.findall(r"class=(\S+) cases=(\d+)", p.stdout)
                details = [l.strip()[:300] for l in p.stdout.splitlines() if l.strip().startswith("class=")][:3]
                out["results"][prop] = {"rc": p.returncode, "classes": classes[:6], "details": details,
                                        "harness": [l[:300] for l in p.stdout.splitlines() if l.startswith("HARNESS-ERROR")][:3],
                                        "summary": (p.stderr.strip().splitlines() or [""])[-1], "wall_s": round(time.time() - t0, 1)}
        finally:
            sh("git -C /repo worktree remove --force %s; rm -f %s/bin/*ksim_scratch_%d*" % (wt, VERIF, os.getpid()))
        out["repo_restored"] = True
        print(json.dumps(out, indent=1))
        return
    st = sh("git -C /repo status --porcelain").stdout.strip()
    if st:
        print("refusing: /repo is not clean:\n" + st)
        sys.exit(2)
    out = {"patch": patch, "results": {}}
    ap_ = sh("git -C /repo apply --whitespace=nowarn %s" % patch)
    if ap_.returncode != 0:
        print("patch does not apply:\n" + ap_.stdout)
        sys.exit(2)
    try:
        b = sh("cd /repo/v2 && go build ./... 2>&1 | tail -5")
        out["build"] = "ok" if b.returncode == 0 and not b.stdout.strip() else b.stdout
        if a.suite:
            t = sh("cd /repo/v2 && go test -count=1 ./... 2>&1 | tail -12")
            out["suite"] = "pass" if "FAIL" not in t.stdout else t.stdout
        for prop in a.props.split(","):
            t0 = time.time()
            env = dict(os.environ, VERIF_BUDGET=str(a.budget), VERIF_SEED=str(a.seed))
            p = subprocess.run([sys.executable, os.path.join(VERIF, "ctl", "ksimctl.py"), "check", prop, "--tier", a.tier],
                               cwd=VERIF, env=env, stdout=subprocess.PIPE, stderr=subprocess.PIPE, text=True)
            classes = re.findall(r"class=(\S+) cases=(\d+)", p.stdout)
            viol = re.findall(r"VIOLATION property=\S+ replay=(\S+)", p.stdout)
            details = [l.strip()[:300] for l in p.stdout.splitlines() if l.strip().startswith("class=")][:3]
            out["results"][prop] = {"rc": p.returncode, "classes": classes[:6], "replays": viol[:3], "details": details,
                                    "harness": [l[:300] for l in p.stdout.splitlines() if l.startswith("HARNESS-ERROR")][:3],
                                    "summary": (p.stderr.strip().splitlines() or [""])[-1], "wall_s": round(time.time() - t0, 1)}
    finally:
        sh("git -C /repo checkout -- . && git -C /repo clean -fdq -- v2")
    st = sh("git -C /repo status --porcelain").stdout.strip()
    out["repo_restored"] = (st == "")
    print(json.dumps(out, indent=1))


if __name__ == "__main__":
    main()
