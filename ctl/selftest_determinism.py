#!/usr/bin/env python3
"""Determinism self-test of the simulator: the same (seed, property, case) must give the same
complete event log and the same result in separate processes, at GOMAXPROCS 1, 4 and 16,
several times each. Usage: selftest_determinism.py [props...] [--cases N] [--reps R]

Prints one line per property; exit 0 iff every run of every case agreed."""
import argparse
import hashlib
import json
import os
import subprocess
import sys

VERIF = os.path.dirname(os.path.dirname(os.path.abspath(__file__)))
sys.path.insert(0, os.path.join(VERIF, "ctl"))
import ksimctl  # noqa: E402


def run(binary, prop, seed, frm, to, gmp, env_extra=None):
    env = dict(os.environ, GOMAXPROCS=str(gmp))
    if env_extra:
        env.update(env_extra)
    p = subprocess.run([binary, "-prop", prop, "-seed", str(seed), "-from", str(frm), "-to", str(to), "-trace", "-ballast", "16"],
                       stdout=subprocess.PIPE, stderr=subprocess.PIPE, env=env)
    out = {}
    for line in p.stdout.splitlines():
        try:
            r = json.loads(line)
        except Exception:
            continue
        if "i" not in r:
            continue
        render = r.get("render") or {}
        # drop wall-clock dependent text (CLI output contains timings)
        if "cli_runs" in render:
            for x in render["cli_runs"]:
                x.pop("output", None)
        key = json.dumps({k: r.get(k) for k in ("v", "class", "ev", "tasks", "ss", "cfg", "faults", "probes", "tl")}, sort_keys=True)
        tr = json.dumps(render.get("trace"), sort_keys=True)
        out[r["i"]] = hashlib.sha256((key + tr).encode()).hexdigest()
    return out, p.returncode


def main():
    ap = argparse.ArgumentParser()
    ap.add_argument("props", nargs="*", default=["C07", "C04", "C05", "C08", "C17", "C02", "C11"])
    ap.add_argument("--cases", type=int, default=40)
    ap.add_argument("--reps", type=int, default=3)
    ap.add_argument("--seed", type=int, default=7)
    a = ap.parse_args()
    bad = 0
    for prop in a.props:
        binary = ksimctl.build(prop, race=(prop == "C18"))
        if prop == "C19":
            os.environ["KSIM_CLI"] = ksimctl.build_cli()
        ref = None
        runs = 0
        diverged = set()
        for gmp in (1, 4, 16):
            for rep in range(a.reps):
                # one process per chunk of cases: tens of processes per property
                got = {}
                for frm in range(0, a.cases, 10):
                    o, rc = run(binary, prop, a.seed, frm, min(frm + 10, a.cases), gmp)
                    got.update(o)
                    runs += 1
                if ref is None:
                    ref = got
                else:
                    for i in ref:
                        if got.get(i) != ref[i]:
                            diverged.add(i)
        print("%s: %d cases x %d runs in %d processes (GOMAXPROCS 1/4/16): %s" % (
            prop, len(ref or {}), 3 * a.reps, runs, "all identical" if not diverged else "DIVERGED cases %s" % sorted(diverged)), flush=True)
        if diverged or not ref:
            bad += 1
    sys.exit(1 if bad else 0)


if __name__ == "__main__":
    main()
