// Package cliinit is linked into the real kanzi CLI (through a build overlay
// that adds one file to v2/app) when the C19 check builds it. Without the
// KSIM_SEED environment variable it does nothing: the binary behaves exactly
// like the shipped one. With it, every goroutine of the CLI (file workers and
// block tasks) runs under the in-process seeded scheduler, the process can
// SIGKILL itself at the k-th simulation event (when every task is parked, so
// the file system state is a function of inputs, options, seed and k) and
// the wrapped output can be made to fail.
package cliinit

import (
	"os"
	"strconv"
	"syscall"

	"github.com/flanglet/kanzi-go/v2/verifharness/sim"
)

func envInt(name string, def int) int {
	if v := os.Getenv(name); v != "" {
		if n, err := strconv.Atoi(v); err == nil {
			return n
		}
	}
	return def
}

func init() {
	seedStr := os.Getenv("KSIM_SEED")
	if seedStr == "" {
		return
	}
	seed, _ := strconv.ParseUint(seedStr, 10, 64)
	killAt := envInt("KSIM_KILL", -1)
	failOut := envInt("KSIM_FAIL_OUT", -1)  // k-th write of a wrapped output fails (permanently)
	failKind := envInt("KSIM_FAIL_KIND", 0) // 0 = (0, err), 1 = torn
	shortIn := envInt("KSIM_SHORT_IN", 0)   // > 0: wrapped inputs return at most this many bytes per read
	var trace *os.File
	if name := os.Getenv("KSIM_TRACE"); name != "" {
		trace, _ = os.OpenFile(name, os.O_WRONLY|os.O_CREATE|os.O_TRUNC, 0o644)
	}
	stuck := false
	outWrites := 0
	hooks := sim.Hooks{OnIO: func(s *sim.Sched, ti *sim.TaskInfo, obj, op string, k, n int) sim.IOAction {
		if obj == "out" && op == "write" {
			idx := outWrites
			outWrites++
			if stuck {
				return sim.IOAction{Kind: sim.IOErr, Err: &sim.InjectedError{What: "no space left on device (simulated)"}}
			}
			if idx == failOut {
				stuck = true
				if failKind == 1 {
					return sim.IOAction{Kind: sim.IOTorn, N: n / 2, Err: &sim.InjectedError{What: "no space left on device (simulated, torn)"}}
				}
				return sim.IOAction{Kind: sim.IOErr, Err: &sim.InjectedError{What: "no space left on device (simulated)"}}
			}
		}
		if obj == "in" && op == "read" && shortIn > 0 {
			return sim.IOAction{N: 1 + (k*7)%shortIn}
		}
		return sim.IOAction{}
	}}
	tape := sim.NewRecordTape(seed)
	line := make([]byte, 0, 128)
	sim.Attach(tape, sim.Options{Hooks: hooks}, func(s *sim.Sched, ti *sim.TaskInfo, ev *sim.Event) {
		if trace != nil {
			// one unbuffered line per event: survives os.Exit and SIGKILL
			// (no fmt here: this runs in the scheduler goroutine, whose synchronisation events the
			// race detector is told to ignore, so fmt's pooled printers would look shared)
			line = line[:0]
			line = strconv.AppendInt(line, int64(ev.Seq), 10)
			line = append(line, ' ')
			line = strconv.AppendInt(line, int64(ev.Task), 10)
			line = append(line, ' ')
			line = append(line, ev.Name...)
			line = append(line, ' ')
			line = strconv.AppendInt(line, int64(ev.A), 10)
			line = append(line, '\n')
			trace.Write(line)
		}
		if killAt >= 0 && ev.Seq == killAt {
			// every task is parked at a hook point: the process dies between two operations
			syscall.Kill(os.Getpid(), syscall.SIGKILL)
			select {}
		}
	})
}
