// mkcorpus writes the golden corpus: streams produced by the pinned reference
// encoder (harness/ref), one per transform, entropy codec, checksum width and
// a few chains, with the SHA-256 of the originals. Run once; the output is committed.
package main

import (
	"crypto/sha256"
	"encoding/hex"
	"encoding/json"
	"fmt"
	"os"
	"path/filepath"

	"github.com/flanglet/kanzi-go/v2/verifharness/props"
)

func main() {
	dir := os.Args[1]
	os.MkdirAll(dir, 0o755)
	type spec struct {
		t, e  string
		shape string
		n     int
		bs    int
		ck    int
		hl    bool
		jobs  int
	}
	var specs []spec
	shapeFor := map[string]string{"TEXT": "text", "UTF": "utf8", "DNA": "dna", "EXE": "exe", "MM": "wav", "PACK": "smallalpha", "RLT": "runs", "ZRLT": "runs", "SRT": "skewed", "RANK": "text", "MTFT": "text", "BWT": "text", "BWTS": "text", "LZ": "mixed", "LZX": "mixed", "LZP": "periodic", "ROLZ": "text", "ROLZX": "text", "NONE": "random"}
	for _, t := range props.TransformNames {
		specs = append(specs, spec{t, "HUFFMAN", shapeFor[t], 40000, 16384, 32, false, 2})
	}
	for _, e := range props.EntropyNames {
		n := 40000
		if e == "TPAQ" || e == "TPAQX" {
			n = 12000
		}
		specs = append(specs, spec{"NONE", e, "text", n, 16384, 64, false, 1})
		specs = append(specs, spec{"LZ", e, "mixed", n, 8192, 0, false, 2})
	}
	specs = append(specs,
		spec{"TEXT+BWT+RANK+ZRLT", "ANS0", "text", 100000, 65536, 32, false, 3},
		spec{"BWT+MTFT+ZRLT", "FPAQ", "text", 60000, 32768, 0, true, 2},
		spec{"LZX+ROLZ", "CM", "mixed", 50000, 16384, 64, true, 2},
		spec{"RLT+TEXT+UTF+PACK+LZP+MM+EXE+DNA", "RANGE", "mixed", 70000, 16384, 32, false, 4},
		spec{"PACK+DNA", "ANS1", "dna", 50000, 16384, 64, false, 1},
		spec{"BWTS+SRT+ZRLT", "HUFFMAN", "text", 30000, 8192, 0, false, 1},
		spec{"NONE", "NONE", "zeros", 0, 1024, 32, false, 1},
		spec{"LZ", "HUFFMAN", "text", 10, 1024, 64, false, 1},
		spec{"BWT", "ANS0", "text", 300000, 262144, 32, false, 2},
	)
	var index []props.CorpusEntry
	for i, s := range specs {
		rec := props.DataRecipe{Shape: s.shape, Len: s.n, Seed: uint64(1000 + i)}
		data := rec.Bytes()
		cfg := props.Config{Transform: s.t, Entropy: s.e, BlockSize: s.bs, Jobs: s.jobs, DecJobs: 1, Checksum: s.ck, Headerless: s.hl, Hint: "exact", HintValue: int64(len(data))}
		stream, err := props.RefCompress(cfg, data)
		if err != nil {
			fmt.Println("skip (reference encoder fails):", s.t, s.e, err)
			continue
		}
		out, err := props.RefDecompress(cfg, stream, 1)
		if err != nil || string(out) != string(data) {
			fmt.Println("skip (reference pair does not round-trip):", s.t, s.e, err)
			continue
		}
		name := fmt.Sprintf("%03d.knz", len(index))
		if err := os.WriteFile(filepath.Join(dir, name), stream, 0o644); err != nil {
			panic(err)
		}
		h := sha256.Sum256(data)
		index = append(index, props.CorpusEntry{File: name, Cfg: cfg, Data: rec, SHA256: hex.EncodeToString(h[:]), Len: len(data)})
	}
	b, _ := json.MarshalIndent(index, "", " ")
	os.WriteFile(filepath.Join(dir, "index.json"), b, 0o644)
	fmt.Println(len(index), "entries")
}
