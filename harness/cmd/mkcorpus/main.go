// mkcorpus writes the golden corpus: streams produced by the pinned reference
// encoder (harness/ref), one per transform, entropy codec, checksum width and
// a few chains, with the SHA-256 of the originals. Run once; the output is committed.
package main

import (
	"crypto/sha256"
	"encoding/hex"
	"encoding/json"
	"fmt"
	"os"
	"path/filepath"
	"strings"

	"github.com/flanglet/kanzi-go/v2/verifharness/props"
)

var appendTo []props.CorpusEntry
var total int

func main() {
	dir := os.Args[1]
	os.MkdirAll(dir, 0o755)
	type spec struct {
		t, e  string
		shape string
		n     int
		bs    int
		ck    int
		hl    bool
		jobs  int
	}
	var specs []spec
	shapeFor := map[string]string{"TEXT": "text", "UTF": "utf8", "DNA": "dna", "EXE": "exe", "MM": "wav", "PACK": "smallalpha", "RLT": "runs", "ZRLT": "runs", "SRT": "skewed", "RANK": "text", "MTFT": "text", "BWT": "text", "BWTS": "text", "LZ": "mixed", "LZX": "mixed", "LZP": "periodic", "ROLZ": "text", "ROLZX": "text", "NONE": "random"}
	for _, t := range props.TransformNames {
		specs = append(specs, spec{t, "HUFFMAN", shapeFor[t], 40000, 16384, 32, false, 2})
	}
	for _, e := range props.EntropyNames {
		n := 40000
		if e == "TPAQ" || e == "TPAQX" {
			n = 12000
		}
		specs = append(specs, spec{"NONE", e, "text", n, 16384, 64, false, 1})
		specs = append(specs, spec{"LZ", e, "mixed", n, 8192, 0, false, 2})
	}
	specs = append(specs,
		spec{"TEXT+BWT+RANK+ZRLT", "ANS0", "text", 100000, 65536, 32, false, 3},
		spec{"BWT+MTFT+ZRLT", "FPAQ", "text", 60000, 32768, 0, true, 2},
		spec{"LZX+ROLZ", "CM", "mixed", 50000, 16384, 64, true, 2},
		spec{"RLT+TEXT+UTF+PACK+LZP+MM+EXE+DNA", "RANGE", "mixed", 70000, 16384, 32, false, 4},
		spec{"PACK+DNA", "ANS1", "dna", 50000, 16384, 64, false, 1},
		spec{"BWTS+SRT+ZRLT", "HUFFMAN", "text", 30000, 8192, 0, false, 1},
		spec{"NONE", "NONE", "zeros", 0, 1024, 32, false, 1},
		spec{"LZ", "HUFFMAN", "text", 10, 1024, 64, false, 1},
		spec{"BWT", "ANS0", "text", 300000, 262144, 32, false, 2},
	)
	// the presets of the command-line levels 1-9 (the most used configurations) and the pairs whose
	// transform looks at the entropy codec (TEXT sizes its tables by it, RLT picks its escape by it)
	levels := []string{"LZX&NONE", "DNA+LZ&HUFFMAN", "TEXT+UTF+PACK+MM+LZX&HUFFMAN", "TEXT+UTF+EXE+PACK+MM+ROLZ&NONE", "TEXT+UTF+BWT+RANK+ZRLT&ANS0",
		"TEXT+UTF+BWT+SRT+ZRLT&FPAQ", "LZP+TEXT+UTF+BWT+LZP&CM", "EXE+RLT+TEXT+UTF+DNA&TPAQ", "EXE+RLT+TEXT+UTF+DNA&TPAQX"}
	for _, l := range levels {
		te := strings.Split(l, "&")
		n := 60000
		if strings.HasPrefix(te[1], "TPAQ") {
			n = 40000
		}
		specs = append(specs, spec{te[0], te[1], "prose", n, 65536, 32, false, 2})
		specs = append(specs, spec{te[0], te[1], "mixed", n / 2, 16384, 0, false, 1})
	}
	for _, e := range props.EntropyNames {
		n := 40000
		if e == "TPAQ" || e == "TPAQX" {
			n = 30000
		}
		specs = append(specs, spec{"TEXT", e, "prose", n, 65536, 32, false, 1})
		specs = append(specs, spec{"RLT", e, "runs", n / 2, 16384, 0, false, 1})
	}
	// large block-size PARAMETERS with little data: the parameter sizes hash tables and selects
	// thresholds inside several codecs (TEXT, TPAQ, ROLZ, LZ), so it is part of the format
	for i, l := range levels {
		te := strings.Split(l, "&")
		bs := []int{4 << 20, 1 << 20, 256 << 10}[i%3]
		if strings.HasPrefix(te[1], "TPAQ") {
			bs = 1 << 20
		}
		specs = append(specs, spec{te[0], te[1], "prose", 50000, bs, 32, false, 1})
	}
	for _, e := range []string{"HUFFMAN", "ANS0", "ANS1", "FPAQ", "CM", "RANGE", "NONE"} {
		specs = append(specs, spec{"TEXT", e, "prose", 45000, 512 << 10, 0, false, 1})
		specs = append(specs, spec{"TEXT+UTF+BWT+RANK+ZRLT", e, "prose", 45000, 128 << 10, 32, false, 1})
	}
	for _, t := range []string{"LZ", "LZX", "LZP", "ROLZ", "ROLZX", "BWT", "TEXT", "UTF", "EXE", "MM"} {
		specs = append(specs, spec{t, "HUFFMAN", shapeFor[t], 50000, 2 << 20, 32, false, 1})
	}
	// large amounts of DATA per block (not only a large parameter): chunk sizes of the entropy coders
	// inside and after the transforms, match-buffer sizes, the number of BWT primary indexes
	specs = append(specs,
		spec{"ROLZ", "NONE", "prose", 600000, 1 << 20, 32, false, 1},
		spec{"ROLZ", "ANS0", "text", 400000, 1 << 20, 0, false, 2},
		spec{"ROLZX", "HUFFMAN", "prose", 400000, 512 << 10, 32, false, 1},
		spec{"LZ", "ANS1", "mixed", 400000, 512 << 10, 0, false, 1},
		spec{"LZX", "RANGE", "text", 300000, 512 << 10, 64, false, 2},
		spec{"TEXT+UTF+BWT+RANK+ZRLT", "ANS0", "prose", 500000, 1 << 20, 32, false, 1},
		spec{"TEXT", "HUFFMAN", "prose", 500000, 1 << 20, 0, false, 1},
		spec{"LZP", "FPAQ", "periodic", 300000, 512 << 10, 32, false, 1},
		spec{"BWTS", "CM", "text", 300000, 512 << 10, 0, false, 1},
	)
	if len(os.Args) > 2 && os.Args[2] == "append" {
		// keep the entries already archived byte for byte: only new specs are added
		var old []props.CorpusEntry
		if raw, err := os.ReadFile(filepath.Join(dir, "index.json")); err == nil {
			json.Unmarshal(raw, &old)
		}
		done := len(old)
		if raw, err := os.ReadFile(filepath.Join(dir, "nspecs.txt")); err == nil {
			fmt.Sscanf(string(raw), "%d", &done) // specs already processed (some are skipped by the reference)
		}
		total = len(specs)
		specs = specs[done:]
		appendTo = old
		defer func() { os.WriteFile(filepath.Join(dir, "nspecs.txt"), []byte(fmt.Sprint(total)), 0o644) }()
	}
	index := appendTo
	for i, s := range specs {
		i += len(appendTo)
		rec := props.DataRecipe{Shape: s.shape, Len: s.n, Seed: uint64(1000 + i)}
		data := rec.Bytes()
		cfg := props.Config{Transform: s.t, Entropy: s.e, BlockSize: s.bs, Jobs: s.jobs, DecJobs: 1, Checksum: s.ck, Headerless: s.hl, Hint: "exact", HintValue: int64(len(data))}
		stream, err := props.RefCompress(cfg, data)
		if err != nil {
			fmt.Println("skip (reference encoder fails):", s.t, s.e, err)
			continue
		}
		out, err := props.RefDecompress(cfg, stream, 1)
		if err != nil || string(out) != string(data) {
			fmt.Println("skip (reference pair does not round-trip):", s.t, s.e, err)
			continue
		}
		name := fmt.Sprintf("%03d.knz", len(index))
		if err := os.WriteFile(filepath.Join(dir, name), stream, 0o644); err != nil {
			panic(err)
		}
		h := sha256.Sum256(data)
		index = append(index, props.CorpusEntry{File: name, Cfg: cfg, Data: rec, SHA256: hex.EncodeToString(h[:]), Len: len(data)})
	}
	b, _ := json.MarshalIndent(index, "", " ")
	os.WriteFile(filepath.Join(dir, "index.json"), b, 0o644)
	fmt.Println(len(index), "entries")
}
