// probe: ad-hoc plain (no simulation) round trips for triage.
package main

import (
	"flag"
	"fmt"

	"github.com/flanglet/kanzi-go/v2/verifharness/props"
)

func main() {
	tr := flag.String("t", "EXE", "transform")
	en := flag.String("e", "NONE", "entropy")
	shape := flag.String("shape", "exe", "data shape")
	n := flag.Int("n", 20000, "length")
	bs := flag.Int("b", 65536, "block size")
	seeds := flag.Int("seeds", 200, "seeds")
	flag.Parse()
	fails := map[string]int{}
	for s := 0; s < *seeds; s++ {
		data := props.GenData(*shape, *n, uint64(s))
		cfg := props.Config{Transform: *tr, Entropy: *en, BlockSize: *bs, Jobs: 1, DecJobs: 1}
		msg := props.PlainRoundTrip(cfg, data)
		if msg != "" {
			fails[msg]++
			if fails[msg] == 1 {
				fmt.Println("seed", s, msg)
			}
		}
	}
	fmt.Println(fails)
}
