package main

import (
	"fmt"

	"github.com/flanglet/kanzi-go/v2/verifharness/props"
)

func main() {
	cfg := props.Config{Transform: "MTFT+TEXT+SRT+SRT+TEXT+BWTS+MM", Entropy: "ANS1", BlockSize: 1360, Jobs: 1, DecJobs: 1}
	data := props.GenData("mixed", 5403, 2025343369)
	stream, err := props.RefCompress(cfg, data)
	fmt.Println("ref compress", len(stream), err)
	for _, j := range []int{1, 2, 3, 4} {
		out, err := props.RefDecompress(cfg, stream, j)
		fmt.Println("ref decoder jobs", j, len(out), err)
		cfg.DecJobs = j
		fmt.Println("cur decoder jobs", j, props.PlainDecode(cfg, stream, data))
	}
}
