package main

import (
	"bytes"
	"fmt"

	"github.com/flanglet/kanzi-go/v2/verifharness/props"
)

func main() {
	data := props.GenData("skewed", 8049, 0)
	var outs [][]byte
	for _, j := range []int{1, 2, 3, 4, 1, 3} {
		cfg := props.Config{Transform: "LZP+RLT", Entropy: "NONE", BlockSize: 3776, Jobs: j, Hint: "larger", HintValue: 8050}
		s, err := props.PlainCompress(cfg, data)
		fmt.Println("jobs", j, len(s), err)
		outs = append(outs, s)
	}
	fmt.Println("1 vs 3 equal:", bytes.Equal(outs[0], outs[2]), " 1 vs 1 equal:", bytes.Equal(outs[0], outs[4]), " 3 vs 3:", bytes.Equal(outs[2], outs[5]))
	for _, t := range []string{"LZP", "RLT", "LZP+RLT"} {
		var o [][]byte
		for _, j := range []int{1, 3} {
			cfg := props.Config{Transform: t, Entropy: "NONE", BlockSize: 3776, Jobs: j, Hint: "larger", HintValue: 8050}
			s, _ := props.PlainCompress(cfg, data)
			o = append(o, s)
		}
		fmt.Println(t, "jobs1==jobs3:", bytes.Equal(o[0], o[1]), len(o[0]), len(o[1]))
	}
	for _, h := range []int64{0, 8049, 8050, 20000} {
		var o [][]byte
		for _, j := range []int{1, 3} {
			cfg := props.Config{Transform: "LZP+RLT", Entropy: "NONE", BlockSize: 3776, Jobs: j, HintValue: h}
			s, _ := props.PlainCompress(cfg, data)
			o = append(o, s)
		}
		fmt.Println("hint", h, "jobs1==jobs3:", bytes.Equal(o[0], o[1]), len(o[0]), len(o[1]))
	}
}
