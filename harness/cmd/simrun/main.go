// simrun is the worker of the simulation harness: it runs the cases of one
// property, replays a tape, or minimises a failing tape.
package main

import (
	"bufio"
	"encoding/json"
	"flag"
	"fmt"
	"os"
	"runtime"
	"runtime/pprof"
	"time"

	"github.com/flanglet/kanzi-go/v2/verifharness/props"
	"github.com/flanglet/kanzi-go/v2/verifharness/sim"
)

// ReplayFile is the on-disk form of a failing (or sample) case.
type ReplayFile struct {
	Engine   string         `json:"engine"`
	Property string         `json:"property"`
	Seed     uint64         `json:"seed"`
	Case     int            `json:"case"`
	Tier     string         `json:"tier"`
	Class    string         `json:"class"`
	Detail   string         `json:"detail"`
	Feat     []string       `json:"feat,omitempty"`
	Tape     []uint32       `json:"tape"`
	Shrunk   bool           `json:"shrunk"`
	Runs     int            `json:"shrink_runs,omitempty"`
	Render   map[string]any `json:"render,omitempty"`
}

const engineVersion = "ksim-1"

func runTape(prop props.Prop, name string, seed uint64, idx int, tier string, tape *sim.Tape, trace bool, neutral string) *props.Result {
	c := &props.Case{Prop: name, Seed: seed, Index: idx, Tier: tier, Tape: tape, KeepTrace: trace, Neutralise: neutral}
	r := prop(c)
	r.TapeLen = tape.Pos()
	return r
}

func main() {
	prop := flag.String("prop", "", "property id")
	seed := flag.Uint64("seed", 1, "master seed")
	from := flag.Int("from", 0, "first case index")
	to := flag.Int("to", 100, "one past the last case index")
	step := flag.Int("step", 1, "case index stride")
	tier := flag.String("tier", "quick", "quick|thorough")
	budget := flag.Duration("budget", 0, "stop starting new cases after this wall time")
	replay := flag.String("replay", "", "replay file to re-execute")
	shrink := flag.String("shrink", "", "replay file to minimise")
	out := flag.String("out", "", "output file for -shrink")
	trace := flag.Bool("trace", false, "keep and print full traces")
	neutral := flag.String("neutralise", "", "known finding whose trigger is neutralised")
	samples := flag.Int("samples", 0, "emit a full rendering for the first N ok cases")
	ballastMB := flag.Int("ballast", 192, "heap ballast in MiB")
	mark := flag.Bool("mark", false, "emit a start marker before each case (crash attribution)")
	caseCPU := flag.Duration("casecpu", 0, "CPU time budget per case; exceeded => marker + exit 3")
	memprof := flag.String("memprofile", "", "write an allocation profile")
	cpuprof := flag.String("cpuprofile", "", "write a CPU profile")
	flag.Parse()
	if *cpuprof != "" {
		f, _ := os.Create(*cpuprof)
		pprof.StartCPUProfile(f)
		defer pprof.StopCPUProfile()
	}
	// A never-touched ballast raises the heap goal: the collector runs rarely and
	// the scavenger never returns pages, so page faults (very slow when 16
	// workers fault at once in this VM) happen once per worker, not per case.
	ballast := make([]byte, *ballastMB<<20)
	defer runtime.KeepAlive(ballast)

	w := bufio.NewWriterSize(os.Stdout, 1<<16)
	defer w.Flush()
	enc := json.NewEncoder(w)

	if *replay != "" || *shrink != "" {
		path := *replay
		if path == "" {
			path = *shrink
		}
		raw, err := os.ReadFile(path)
		if err != nil {
			fmt.Fprintln(os.Stderr, "simrun:", err)
			os.Exit(2)
		}
		var rf ReplayFile
		if err := json.Unmarshal(raw, &rf); err != nil {
			fmt.Fprintln(os.Stderr, "simrun:", err)
			os.Exit(2)
		}
		p := props.Registry[rf.Property]
		if p == nil {
			fmt.Fprintln(os.Stderr, "simrun: unknown property", rf.Property)
			os.Exit(2)
		}
		if *caseCPU > 0 {
			startWatchdog(*caseCPU, w)
			caseBegin(rf.Case)
		}
		if *replay != "" {
			tp := sim.NewReplayTape(rf.Tape)
			if rf.Tape == nil {
				// a case that killed its process: the tape is regenerated from (seed, property, case)
				tp = sim.NewRecordTape(sim.Mix(rf.Seed, sim.HashString(rf.Property), uint64(rf.Case)))
			}
			r := runTape(p, rf.Property, rf.Seed, rf.Case, rf.Tier, tp, true, *neutral)
			enc.Encode(r)
			w.Flush()
			if r.Verdict == "fail" {
				os.Exit(1)
			}
			return
		}
		// shrink
		test := func(tp []uint32) bool {
			r := runTape(p, rf.Property, rf.Seed, rf.Case, rf.Tier, sim.NewReplayTape(tp), false, "")
			return r.Verdict == "fail" && r.Class == rf.Class && sameFeat(r.Feat, rf.Feat)
		}
		if rf.Class == "process-died" || rf.Class == "hang" {
			// the violation is the death (or CPU exhaustion) of the process: every candidate runs in a child
			if rf.Tape == nil {
				rf.Tape = recordTapeInChild(rf, *caseCPU)
			}
			test = func(tp []uint32) bool { return childOutcome(rf, tp, *caseCPU) == rf.Class }
			best, runs := sim.Shrink(rf.Tape, test, 400, 120*time.Second)
			rf.Tape = best
			rf.Shrunk = true
			rf.Runs = runs
			b, _ := json.MarshalIndent(rf, "", " ")
			if *out == "" {
				*out = path
			}
			os.WriteFile(*out, b, 0o644)
			if !test(best) {
				os.Exit(3)
			}
			return
		}
		if !test(rf.Tape) {
			fmt.Fprintln(os.Stderr, "simrun: the tape does not reproduce the recorded violation class")
			os.Exit(3)
		}
		best, runs := sim.Shrink(rf.Tape, test, 3000, 90*time.Second)
		r := runTape(p, rf.Property, rf.Seed, rf.Case, rf.Tier, sim.NewReplayTape(best), true, "")
		rf.Tape = best
		rf.Shrunk = true
		rf.Runs = runs
		rf.Detail = r.Detail
		rf.Render = r.Render
		rf.Feat = r.Feat
		b, _ := json.MarshalIndent(rf, "", " ")
		if *out == "" {
			*out = path
		}
		if err := os.WriteFile(*out, b, 0o644); err != nil {
			fmt.Fprintln(os.Stderr, "simrun:", err)
			os.Exit(2)
		}
		return
	}

	p := props.Registry[*prop]
	if p == nil {
		fmt.Fprintln(os.Stderr, "simrun: unknown property", *prop)
		os.Exit(2)
	}

	if *caseCPU > 0 {
		startWatchdog(*caseCPU, w)
	}
	start := time.Now()
	emitted := 0
	for i := *from; i < *to; i += *step {
		if *budget > 0 && time.Since(start) > *budget {
			break
		}
		if *mark {
			fmt.Fprintf(w, "{\"start\":%d}\n", i)
			w.Flush()
		}
		caseBegin(i)
		tape := sim.NewRecordTape(sim.Mix(*seed, sim.HashString(*prop), uint64(i)))
		r := runTape(p, *prop, *seed, i, *tier, tape, *trace, *neutral)
		if r.Verdict == "fail" {
			r.Tape = tape.Used()
		}
		if !(*trace) && !(r.Verdict == "ok" && emitted < *samples) {
			r.Render = nil
		} else if r.Verdict == "ok" {
			emitted++
			r.Tape = tape.Used()
		}
		if err := enc.Encode(r); err != nil {
			fmt.Fprintln(os.Stderr, "simrun:", err)
			os.Exit(2)
		}
		if i%64 == 0 {
			w.Flush()
		}
	}
	if *memprof != "" {
		f, _ := os.Create(*memprof)
		pprof.Lookup("allocs").WriteTo(f, 0)
		f.Close()
	}
}

func sameFeat(a, b []string) bool {
	if len(a) != len(b) {
		return false
	}
	for i := range a {
		if a[i] != b[i] {
			return false
		}
	}
	return true
}
