package main

import (
	"bufio"
	"encoding/json"
	"fmt"
	"os"
	"os/exec"
	"sync/atomic"
	"syscall"
	"time"

	"github.com/flanglet/kanzi-go/v2/verifharness/sim"
)

var curCase atomic.Int64
var caseCPU0 atomic.Int64

// cpuNow is the USER CPU time of the process: a spinning task burns user time, while
// system time is dominated by page faults, which take a hundred times longer when sixteen
// workers fault at once in this VM and must not be mistaken for a hang.
func cpuNow() time.Duration {
	var ru syscall.Rusage
	syscall.Getrusage(syscall.RUSAGE_SELF, &ru)
	return time.Duration(ru.Utime.Nano())
}

func caseBegin(i int) {
	curCase.Store(int64(i))
	caseCPU0.Store(int64(cpuNow()))
}

// startWatchdog ends the process (exit 3, with a marker) when one case burns
// more CPU time than the budget: a hang inside a codec loop has no yield point
// the simulator could see, so CPU time is the only bound available there.
func startWatchdog(budget time.Duration, w *bufio.Writer) {
	curCase.Store(-1)
	go func() {
		lastBeat := sim.Heartbeats()
		for {
			time.Sleep(200 * time.Millisecond)
			if curCase.Load() < 0 {
				continue
			}
			if hb := sim.Heartbeats(); hb != lastBeat {
				// the case started another independent execution: the budget applies to each of them
				lastBeat = hb
				caseCPU0.Store(int64(cpuNow()))
				continue
			}
			used := cpuNow() - time.Duration(caseCPU0.Load())
			if used > budget {
				fmt.Fprintf(os.Stderr, "{\"hang\":%d,\"cpu_s\":%.1f}\n", curCase.Load(), used.Seconds())
				os.Exit(3)
			}
		}
	}()
}

func writeTmpReplay(rf ReplayFile, tape []uint32) string {
	rf.Tape = tape
	f, _ := os.CreateTemp("", "ksim-child-*.json")
	b, _ := json.Marshal(rf)
	f.Write(b)
	f.Close()
	return f.Name()
}

// childOutcome replays a tape in a child process and classifies the outcome.
func childOutcome(rf ReplayFile, tape []uint32, budget time.Duration) string {
	name := writeTmpReplay(rf, tape)
	defer os.Remove(name)
	if budget == 0 {
		budget = 60 * time.Second
	}
	cmd := exec.Command(os.Args[0], "-replay", name, "-casecpu", budget.String(), "-ballast", "16")
	cmd.Env = append(os.Environ(), "GOMAXPROCS=1")
	err := cmd.Run()
	if err == nil {
		return "ok"
	}
	if ee, ok := err.(*exec.ExitError); ok {
		switch ee.ExitCode() {
		case 1:
			return "fail"
		case 3:
			return "hang"
		}
	}
	return "process-died"
}

// recordTapeInChild obtains the tape of a case that kills its process: the
// child writes every draw to a side file as it goes.
func recordTapeInChild(rf ReplayFile, budget time.Duration) []uint32 {
	f, _ := os.CreateTemp("", "ksim-tape-*.bin")
	f.Close()
	defer os.Remove(f.Name())
	name := writeTmpReplay(rf, nil)
	defer os.Remove(name)
	cmd := exec.Command(os.Args[0], "-replay", name, "-ballast", "16")
	cmd.Env = append(os.Environ(), "GOMAXPROCS=1", "KSIM_TAPE_LOG="+f.Name())
	cmd.Run()
	raw, _ := os.ReadFile(f.Name())
	var tape []uint32
	for i := 0; i+4 <= len(raw); i += 4 {
		tape = append(tape, uint32(raw[i])|uint32(raw[i+1])<<8|uint32(raw[i+2])<<16|uint32(raw[i+3])<<24)
	}
	return tape
}

