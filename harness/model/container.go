package model

import (
	"errors"
	"fmt"
)

// An independent parser of the kanzi container format (bitstream version 6),
// written from the published format description: a fixed header followed by a
// sequence of  [5 bits: lw-3][lw bits: payload length in bits][payload]  records,
// ended by a record of length 0. Blocks are not byte aligned.

type BitReader struct {
	B   []byte
	Pos int // bit position
}

func (r *BitReader) Left() int { return len(r.B)*8 - r.Pos }

func (r *BitReader) Bits(n int) (uint64, error) {
	if n > 64 || n < 0 {
		return 0, errors.New("bad width")
	}
	if r.Left() < n {
		return 0, errors.New("out of data")
	}
	var v uint64
	for i := 0; i < n; i++ {
		byt := r.B[r.Pos>>3]
		bit := (byt >> (7 - uint(r.Pos&7))) & 1
		v = v<<1 | uint64(bit)
		r.Pos++
	}
	return v, nil
}

// Header is the parsed stream header.
type Header struct {
	Version    int
	CkSize     int // 0, 32, 64
	Entropy    int
	Transform  uint64
	BlockSize  int
	SzMask     int
	OrigSize   int64
	Checksum   uint32
	Bits       int // total header length in bits
	SizeBitPos int // bit position of the original size field (if SzMask > 0)
}

// Block is one parsed block record. All positions are bit positions in the stream.
type Block struct {
	RecordPos  int // position of the 5-bit width field
	LenWidth   int
	LenPos     int // position of the length field
	PayloadPos int
	PayloadLen int // bits
	Mode       byte
	SkipFlags  byte
	HasSkip    bool
	PreLen     int // pre-inverse-transform length announced in the block
	PreLenPos  int
	PreLenBits int
	CkPos      int // position of the stored checksum (-1 if none)
	BodyPos    int // start of the entropy coded body
	EndPos     int // PayloadPos + PayloadLen
}

// Stream is a parsed container.
type Stream struct {
	Hdr       Header
	HasHeader bool
	Blocks    []Block
	EndPos    int // bit position of the end marker record
	TotalBits int // bit position after the end marker
	TotalLen  int // bytes, after padding
}

// HeaderChecksum computes the 24-bit header checksum of format version 6.
func HeaderChecksum(ckSizeCode int, entropy int, transform uint64, blockSize int, szMask int, origSize int64) uint32 {
	const H = uint32(0x1E35A7BD)
	seed := uint32(0x01030507 * 6)
	ck := H * seed
	ck ^= H * uint32(^uint32(ckSizeCode))
	ck ^= H * uint32(^uint32(entropy))
	ck ^= H * uint32((^transform)>>32)
	ck ^= H * uint32(^transform)
	ck ^= H * uint32(^uint32(blockSize))
	if szMask > 0 {
		ck ^= H * uint32(uint64(^origSize)>>32)
		ck ^= H * uint32(uint64(^origSize))
	}
	ck = (ck >> 23) ^ (ck >> 3)
	return ck & 0xFFFFFF
}

// ParseHeader parses a version-6 header.
func ParseHeader(r *BitReader) (Header, error) {
	var h Header
	start := r.Pos
	magic, err := r.Bits(32)
	if err != nil {
		return h, err
	}
	if magic != 0x4B414E5A {
		return h, fmt.Errorf("bad magic %x", magic)
	}
	v, err := r.Bits(4)
	if err != nil {
		return h, err
	}
	h.Version = int(v)
	if h.Version != 6 {
		return h, fmt.Errorf("version %d not handled by the model", h.Version)
	}
	ck, err := r.Bits(2)
	if err != nil {
		return h, err
	}
	h.CkSize = []int{0, 32, 64, -1}[ck]
	e, err := r.Bits(5)
	if err != nil {
		return h, err
	}
	h.Entropy = int(e)
	t, err := r.Bits(48)
	if err != nil {
		return h, err
	}
	h.Transform = t
	bs, err := r.Bits(28)
	if err != nil {
		return h, err
	}
	h.BlockSize = int(bs) << 4
	sm, err := r.Bits(2)
	if err != nil {
		return h, err
	}
	h.SzMask = int(sm)
	if sm > 0 {
		h.SizeBitPos = r.Pos
		sz, err := r.Bits(16 * int(sm))
		if err != nil {
			return h, err
		}
		h.OrigSize = int64(sz)
	}
	if _, err = r.Bits(15); err != nil {
		return h, err
	}
	c, err := r.Bits(24)
	if err != nil {
		return h, err
	}
	h.Checksum = uint32(c)
	h.Bits = r.Pos - start
	return h, nil
}

// Parse parses a whole stream. ckSize is used for headerless streams (0/32/64).
func Parse(b []byte, headerless bool, ckSize int) (*Stream, error) {
	r := &BitReader{B: b}
	s := &Stream{}
	if !headerless {
		h, err := ParseHeader(r)
		if err != nil {
			return nil, err
		}
		s.Hdr = h
		s.HasHeader = true
		ckSize = h.CkSize
	}

	for {
		var blk Block
		blk.RecordPos = r.Pos
		w, err := r.Bits(5)
		if err != nil {
			return s, fmt.Errorf("block %d: %v", len(s.Blocks)+1, err)
		}
		blk.LenWidth = int(w) + 3
		blk.LenPos = r.Pos
		l, err := r.Bits(blk.LenWidth)
		if err != nil {
			return s, fmt.Errorf("block %d: %v", len(s.Blocks)+1, err)
		}
		if l == 0 {
			s.EndPos = blk.RecordPos
			s.TotalBits = r.Pos
			s.TotalLen = (r.Pos + 7) / 8
			return s, nil
		}
		blk.PayloadPos = r.Pos
		blk.PayloadLen = int(l)
		blk.EndPos = r.Pos + int(l)
		if r.Left() < int(l) {
			return s, fmt.Errorf("block %d: payload of %d bits exceeds the stream", len(s.Blocks)+1, l)
		}
		// peek into the payload
		p := &BitReader{B: b, Pos: r.Pos}
		m, _ := p.Bits(8)
		blk.Mode = byte(m)
		if blk.Mode&0x80 == 0 && blk.Mode&0x10 != 0 {
			sf, _ := p.Bits(8)
			blk.SkipFlags = byte(sf)
			blk.HasSkip = true
		} else if blk.Mode&0x80 == 0 {
			blk.SkipFlags = (blk.Mode << 4) | 0x0F
		}
		ds := 1 + int((blk.Mode>>5)&3)
		blk.PreLenPos = p.Pos
		blk.PreLenBits = 8 * ds
		pl, _ := p.Bits(8 * ds)
		blk.PreLen = int(pl)
		blk.CkPos = -1
		if ckSize > 0 {
			blk.CkPos = p.Pos
			p.Bits(ckSize)
		}
		blk.BodyPos = p.Pos
		r.Pos += int(l)
		s.Blocks = append(s.Blocks, blk)
	}
}

// FlipBit flips one bit (bit position) in a copy-free manner.
func FlipBit(b []byte, pos int) { b[pos>>3] ^= 1 << (7 - uint(pos&7)) }

// SetBits overwrites n bits at bit position pos with the low n bits of v.
func SetBits(b []byte, pos int, n int, v uint64) {
	for i := 0; i < n; i++ {
		bit := (v >> uint(n-1-i)) & 1
		p := pos + i
		mask := byte(1 << (7 - uint(p&7)))
		if bit == 1 {
			b[p>>3] |= mask
		} else {
			b[p>>3] &^= mask
		}
	}
}

// GetBits reads n bits at pos.
func GetBits(b []byte, pos int, n int) uint64 {
	r := &BitReader{B: b, Pos: pos}
	v, _ := r.Bits(n)
	return v
}
