// Package model holds the small executable reference models used as oracles.
package model

import (
	"fmt"
	"strings"
)

// HandoffMonitor is the reference automaton of the block hand-off protocol.
// It consumes the trace of protocol events and rejects any trace in which
//   - two tasks of one stream hold the shared stream at the same time,
//   - the shared stream is acquired out of spawn (= block) order or with a gap,
//   - a sink/source call is made by a task that does not hold the stream,
//   - a task that observed the cancel value touches the shared stream again,
//   - a task acquires the stream although its last load of the counter came
//     after a failed (or end-of-stream) task of its batch had posted the
//     cancel value and signalled completion: it must have seen the cancel.
//
// Streams are identified by the task that drives them (the parent of the block
// tasks), so any number of independent streams can be monitored at once.
type HandoffMonitor struct {
	streams map[int]*hoStream
	tasks   map[int]*hoTask
	now     int // logical clock: number of events fed so far
	// statistics
	Acquisitions   int
	CancelObserved int
	FailedTasks    int
	Batches        int
	IOByHolder     int
	EndOfStream    int
}

type hoStream struct {
	holder      int   // task index holding the shared stream, -1 none
	batch       []int // children of the current batch in spawn order
	nextAcquire int   // position in batch of the task that may acquire next
	liveKids    int
	failed      bool // some task of the current API call failed
	// time at which a task that ended with an error or found the end of the stream signalled
	// completion (its cancel store precedes that signal in program order); 0 = none in this batch
	cancelPostedAt int
	cancelPostedBy int
}

type hoTask struct {
	parent     int
	pos        int // position in its batch
	holding    bool
	published  bool
	acquired   bool
	sawCancel  bool
	lastLoadAt int  // time of the task's last load of the shared counter (spin hook)
	cancelling bool // released with an error or at the end marker: it posts the cancel value
	recovered  bool
	failedFlag bool
	exited     bool
}

func NewHandoffMonitor() *HandoffMonitor {
	return &HandoffMonitor{streams: map[int]*hoStream{}, tasks: map[int]*hoTask{}}
}

func (m *HandoffMonitor) stream(p int) *hoStream {
	st := m.streams[p]
	if st == nil {
		st = &hoStream{holder: -1}
		m.streams[p] = st
	}
	return st
}

// Failed reports whether a task of the stream driven by parent failed since the last call to ResetFailed.
func (m *HandoffMonitor) Failed(parent int) bool {
	if st := m.streams[parent]; st != nil {
		return st.failed
	}
	return false
}

func (m *HandoffMonitor) ResetFailed(parent int) {
	if st := m.streams[parent]; st != nil {
		st.failed = false
	}
}

// OnEvent feeds one trace event. parent is the parent task of the task (or -1 for a root).
func (m *HandoffMonitor) OnEvent(task, parent int, name string, a, b int64) error {
	m.now++
	switch {
	case name == "spawn":
		// task spawns child a
		st := m.stream(task)
		if st.liveKids == 0 {
			st.batch = st.batch[:0]
			st.nextAcquire = 0
			st.holder = -1
			st.cancelPostedAt = 0
			m.Batches++
		}
		child := int(a)
		m.tasks[child] = &hoTask{parent: task, pos: len(st.batch)}
		st.batch = append(st.batch, child)
		st.liveKids++
		return nil
	case name == "exit":
		t := m.tasks[task]
		if t == nil {
			return nil
		}
		st := m.stream(t.parent)
		if t.holding {
			// left while holding: only legal through the failure path, which released already
			return fmt.Errorf("task %d exited while holding the shared stream", task)
		}
		t.exited = true
		st.liveKids--
		delete(m.tasks, task)
		return nil
	}

	t := m.tasks[task]

	if t == nil {
		// a driver task (root): its own sink/source calls are legal only while no block task holds its stream
		if strings.HasSuffix(name, ".write") || strings.HasSuffix(name, ".read") || strings.HasSuffix(name, ".close") {
			if st := m.streams[task]; st != nil && st.holder >= 0 {
				return fmt.Errorf("driver task %d calls %s while block task %d holds the shared stream", task, name, st.holder)
			}
		}
		return nil
	}

	st := m.stream(t.parent)

	if name == "wg.done" && t.cancelling && st.cancelPostedAt == 0 {
		st.cancelPostedAt = m.now
		st.cancelPostedBy = task
	}

	switch {
	case strings.HasSuffix(name, ".spin"):
		t.lastLoadAt = m.now
		if a == -1 {
			if !t.sawCancel {
				m.CancelObserved++
			}
			t.sawCancel = true
		}
	case name == "recovered":
		t.recovered = true
		st.failed = true
	case strings.HasSuffix(name, ".acquired"):
		if t.sawCancel {
			return fmt.Errorf("task %d acquired the shared stream after observing the cancel value", task)
		}
		if st.holder >= 0 {
			return fmt.Errorf("task %d acquired the shared stream while task %d still holds it", task, st.holder)
		}
		if st.cancelPostedAt > 0 && t.lastLoadAt > st.cancelPostedAt {
			return fmt.Errorf("task %d acquired the shared stream although it loaded the counter after task %d (failed or at the end of the stream) had posted the cancel value and completed: the others do not stop", task, st.cancelPostedBy)
		}
		if t.pos != st.nextAcquire {
			want := -1
			if st.nextAcquire < len(st.batch) {
				want = st.batch[st.nextAcquire]
			}
			return fmt.Errorf("task %d (position %d in its batch) acquired the shared stream out of order: position %d (task %d) is next", task, t.pos, st.nextAcquire, want)
		}
		if t.acquired {
			return fmt.Errorf("task %d acquired the shared stream twice", task)
		}
		t.acquired = true
		t.holding = true
		st.holder = task
		st.nextAcquire++
		m.Acquisitions++
	case name == "enc.emitted" || name == "dec.publish":
		// end of the shared-stream section (the store that passes the token follows)
		if !t.holding || st.holder != task {
			return fmt.Errorf("task %d reached %s without holding the shared stream", task, name)
		}
		if name == "enc.emitted" {
			t.holding = false
			st.holder = -1
		}
	case name == "dec.published":
		if !t.holding || st.holder != task {
			return fmt.Errorf("task %d published without holding the shared stream", task)
		}
		t.holding = false
		t.published = true
		st.holder = -1
	case strings.HasSuffix(name, ".release"):
		switch a {
		case 1:
			// the task ends with an error
			t.cancelling = true
			t.failedFlag = true
			st.failed = true
			m.FailedTasks++
		case 2:
			// decoder: no error but nothing decoded - the end marker, or (without checksum) a
			// damaged block that decodes to nothing; the task cancels its successors but did not fail
			t.cancelling = true
			m.EndOfStream++
		}
		if t.holding {
			// failure while holding: the release gives the stream up
			t.holding = false
			st.holder = -1
		}
	case strings.HasSuffix(name, ".write") || strings.HasSuffix(name, ".read") || strings.HasSuffix(name, ".close"):
		if !t.holding || st.holder != task {
			return fmt.Errorf("task %d calls %s on the shared stream without holding it (holder: %d)", task, name, st.holder)
		}
		if t.sawCancel {
			return fmt.Errorf("task %d calls %s after observing the cancel value", task, name)
		}
		m.IOByHolder++
	}

	return nil
}
