package props

import (
	"bytes"
	"fmt"
	"io"
	"strings"

	"github.com/flanglet/kanzi-go/v2/verifharness/sim"
)

func init() {
	Registry["C01"] = C01
	Registry["C04"] = C04
}

// expensiveEntropy allocate tens of MiB per block task.
func expensiveEntropy(cfg Config) bool {
	e := upper(cfg.Entropy)
	return e == "TPAQ" || e == "TPAQX"
}

// roundTripUnderSim compresses and decompresses inside one simulation.
// It returns the compressed bytes, the writer outcome and the reader outcome.
func roundTripUnderSim(c *Case, res *Result, cfg Config, data []byte, pieces []int, sizes []int) (stream []byte, wo WOutcome, ro ROutcome) {
	s := sim.Run(c.Tape, sim.Options{KeepTrace: c.KeepTrace}, func(env *sim.Env) {
		sink := sim.NewSimSink(env.S, "out")
		wo = Compress(cfg, data, pieces, sink)
		stream = sink.Data
		if wo.Err() != nil {
			return
		}
		src := sim.NewSimSource(env.S, "in", stream)
		ro = Decompress(ReaderSpec{Jobs: cfg.DecJobs, Headerless: cfg.Headerless, Cfg: cfg, OrigSize: cfg.HintValue, RBuf: cfg.RBuf}, src, sizes, 0, len(data)+2*cfg.BlockSize+1024)
	})
	res.absorb(s)
	return
}

// C01: lossless round trip through the stream API, fault-free family.
func C01(c *Case) *Result {
	res := newResult(c)
	t := c.Tape
	o := GenOpts{SkipOpt: true, BigParam: true, LongChains: true, MaxJobs: 16, MaxBlock: 64 * 1024, Headerless: true, MixedCase: true}
	if c.Thorough() {
		o.MaxJobs = 64
		o.MaxBlock = 256 * 1024
	}
	// half of the cases use cheap codecs: the schedule / partition / hint dimensions are
	// decided by simulation, the codec x data-shape dimension by seeded sampling
	o.Cheap = t.Intn(2) == 0
	cfg := GenConfig(t, o)
	maxBlocks := 4
	if expensiveEntropy(cfg) {
		cfg.Jobs = min(cfg.Jobs, 2)
		cfg.DecJobs = min(cfg.DecJobs, 2)
		cfg.BlockSize = min(cfg.BlockSize, 16384)
		maxBlocks = 2
	} else if cfg.Jobs > 4 && t.Intn(2) == 0 {
		maxBlocks = cfg.Jobs + 3
		cfg.BlockSize = min(cfg.BlockSize, 4096)
	}
	rec := GenDataRecipe(t, cfg.BlockSize, maxBlocks)
	if c.Thorough() && t.Intn(100) == 0 && !expensiveEntropy(cfg) {
		// cross the BWT thresholds and multi-chunk entropy paths
		cfg.BlockSize = (5*1024*1024 + 16*t.Intn(4096))
		rec.Len = cfg.BlockSize + t.Intn(200000)
		cfg.Jobs = min(cfg.Jobs, 4)
		cfg.DecJobs = min(cfg.DecJobs, 4)
	}
	if g := Geometry(t, &cfg, &rec, c.Thorough()); g != "" {
		res.Probes["geometry."+g]++
	}
	data := rec.Bytes()
	hintValue(&cfg, len(data), t)
	if c.Neutralise == "hint" {
		cfg.Hint, cfg.HintValue = "exact", int64(len(data))
	}
	pieces := GenPartition(t, len(data), cfg.BlockSize)
	sizes := GenPartition(t, 4*cfg.BlockSize, cfg.BlockSize)
	for i := range sizes {
		if sizes[i] == 0 && t.Intn(2) == 0 {
			sizes[i] = 1
		}
	}
	res.Cfg = cfg.Sig() + "/" + rec.Shape
	res.Render["config"] = cfg
	res.Render["data"] = rec
	res.Render["write_pieces"] = headInts(pieces, 20)
	res.Render["read_sizes"] = headInts(sizes, 20)
	res.feat("T:" + upper(cfg.Transform))
	res.feat("E:" + upper(cfg.Entropy))
	res.feat("shape:" + rec.Shape)
	if cfg.Hint == "smaller" || cfg.Hint == "larger" {
		res.feat("hint:" + cfg.Hint)
		res.Faults["hint."+cfg.Hint]++
	}

	stream, wo, ro := roundTripUnderSim(c, res, cfg, data, pieces, sizes)
	res.NonTriv = res.Tasks > 1
	res.Probes["blocks"] += (len(data) + cfg.BlockSize - 1) / max(cfg.BlockSize, 1)
	if len(data) <= 15 {
		res.Probes["tiny.input"]++
	}
	if len(strings.Split(cfg.Transform, "+")) > 4 {
		res.Probes["chain.gt4"]++
	}
	if cfg.Headerless {
		res.Probes["headerless"]++
	}

	if wo.NewErr != nil {
		// a configuration may be rejected at construction
		res.Verdict = "skip"
		res.Detail = "constructor: " + wo.NewErr.Error()
		return res
	}
	if wo.Panic != nil {
		return res.fail("writer-panic", "panic escaped the Writer API: %v", wo.Panic)
	}
	if wo.ShortOK {
		return res.fail("short-write", "Write accepted fewer bytes than given without an error (after %d bytes)", wo.WriteN)
	}
	if err := wo.Err(); err != nil {
		return res.fail("compress-error", "%s failed on a healthy sink: %v", wo.FirstFail, err)
	}
	if res.Verdict == "fail" {
		return res
	}
	if ro.NewErr != nil {
		return res.fail("reader-constructor", "reader construction failed: %v", ro.NewErr)
	}
	if ro.Panic != nil {
		return res.fail("reader-panic", "panic escaped the Reader API: %v", ro.Panic)
	}
	if !isEOF(ro.Err) {
		return res.fail("decompress-error", "reading back failed after %d of %d bytes: %v", len(ro.Data), len(data), ro.Err)
	}
	if d := diffAt(ro.Data, data); d >= 0 {
		return res.fail("roundtrip-mismatch", "decoded data differs from the original at byte %d (decoded %d bytes, original %d); stream %d bytes", d, len(ro.Data), len(data), len(stream))
	}
	return res
}

func headInts(v []int, n int) []int {
	if len(v) > n {
		return v[:n]
	}
	return v
}

// C04: compressed output is a pure function of data and parameters.
func C04(c *Case) *Result {
	res := newResult(c)
	t := c.Tape
	o := GenOpts{SkipOpt: true, BigParam: true, LongChains: true, MaxJobs: 16, MaxBlock: 16 * 1024, Headerless: true}
	if c.Thorough() {
		o.MaxJobs = 64
	}
	o.Cheap = t.Intn(8) != 0
	cfg := GenConfig(t, o)
	maxBlocks := min(2*cfg.Jobs+3, 70)
	if expensiveEntropy(cfg) {
		maxBlocks = 2
		cfg.BlockSize = min(cfg.BlockSize, 8192)
	}
	rec := GenDataRecipe(t, cfg.BlockSize, maxBlocks)
	if g := Geometry(t, &cfg, &rec, c.Thorough()); g != "" {
		res.Probes["geometry."+g]++
	}
	data := rec.Bytes()
	hintValue(&cfg, len(data), t)
	if c.Neutralise == "hint" {
		cfg.Hint, cfg.HintValue = "exact", int64(len(data))
	}
	res.Cfg = cfg.Sig() + "/" + rec.Shape
	res.Render["config"] = cfg
	res.Render["data"] = rec
	if cfg.Hint == "smaller" || cfg.Hint == "larger" {
		res.feat("hint:" + cfg.Hint)
		res.Faults["hint."+cfg.Hint]++
	}

	// reference run: jobs 1, one Write, no simulation
	ref := cfg
	ref.Jobs = 1
	ref.WBuf = 0
	refStream, err := plainCompress(ref, data)
	if err != nil {
		res.Verdict = "skip"
		res.Detail = "reference run failed (C01's business): " + err.Error()
		return res
	}

	nvar := 2 + t.Intn(2)
	var vars []map[string]any
	for v := 0; v < nvar; v++ {
		vc := cfg
		vc.Jobs = jobsDraw(t, o.MaxJobs)
		if res.Probes["geometry.manyblocks"] > 0 && t.Intn(2) == 0 {
			vc.Jobs = []int{63, 64, 32, 2}[t.Intn(4)]
		}
		if expensiveEntropy(cfg) {
			vc.Jobs = min(vc.Jobs, 2)
		}
		if v == nvar-1 && t.Intn(2) == 0 {
			vc.Jobs = cfg.Jobs
		}
		vc.WBuf = GenBuf(t)
		pieces := GenPartition(t, len(data), cfg.BlockSize)
		vars = append(vars, map[string]any{"jobs": vc.Jobs, "wbuf": vc.WBuf, "pieces": headInts(pieces, 12)})
		var wo WOutcome
		var got []byte
		s := sim.Run(t, sim.Options{KeepTrace: c.KeepTrace}, func(env *sim.Env) {
			sink := sim.NewSimSink(env.S, "out")
			wo = Compress(vc, data, pieces, sink)
			got = sink.Data
		})
		res.absorb(s)
		if res.Verdict == "fail" {
			break
		}
		if wo.Err() != nil {
			res.fail("nondeterministic-failure", "jobs=%d: %s failed (%v) although the jobs=1 run of the same data and parameters succeeds", vc.Jobs, wo.FirstFail, wo.Err())
			break
		}
		if d := diffAt(got, refStream); d >= 0 {
			res.fail("output-differs", "jobs=%d, %d Write calls: sink bytes differ from the jobs=1 single-Write reference at byte %d (lengths %d vs %d)", vc.Jobs, len(pieces), d, len(got), len(refStream))
			break
		}
	}
	res.Render["variants"] = vars
	res.NonTriv = res.Tasks > nvar+1
	return res
}

var _ = bytes.Equal
var _ = io.EOF
var _ = fmt.Sprintf
