package props

import (
	"fmt"

	"github.com/flanglet/kanzi-go/v2/verifharness/model"
	"github.com/flanglet/kanzi-go/v2/verifharness/sim"
)

func init() { Registry["C03"] = C03 }

// forgeHeader rewrites header fields and recomputes the 24-bit header checksum.
func forgeHeader(t *sim.Tape, stream []byte, h model.Header, res *Result, maxBlock int) {
	ckCode := map[int]int{0: 0, 32: 1, 64: 2}[h.CkSize]
	entropy, transform, blockSize, orig := h.Entropy, h.Transform, h.BlockSize, h.OrigSize
	switch t.Intn(6) {
	case 0:
		// block size: small, huge (capped so that legitimate allocation of declared sizes stays affordable), odd
		switch t.Intn(5) {
		case 0:
			blockSize = 1024
		case 1:
			blockSize = 16 * (64 + t.Intn(maxBlock/16-64))
		case 2:
			blockSize = maxBlock
		case 3:
			blockSize = []int{0, 16, 512, 1008}[t.Intn(4)] // below the legal minimum, zero included
		default:
			blockSize = 16 * t.Intn(64)
		}
		res.Faults["forge.hdr.blocksize"]++
	case 1:
		entropy = t.Intn(32)
		res.Faults["forge.hdr.entropy"]++
	case 2:
		// replace one of the 8 six-bit transform ids
		k := t.Intn(8)
		id := uint64(t.Intn(64))
		if t.Intn(2) == 0 {
			id = uint64(t.Intn(20))
		}
		transform = (transform &^ (uint64(63) << uint(42-6*k))) | id<<uint(42-6*k)
		res.Faults["forge.hdr.transform"]++
	case 3:
		if h.SzMask > 0 {
			orig = int64(t.Intn(1 << 30))
			if h.SzMask == 1 {
				orig &= 0xFFFF
			}
		}
		res.Faults["forge.hdr.origsize"]++
	case 4:
		ckCode = t.Intn(4)
		res.Faults["forge.hdr.cksize"]++
	default:
		// version field (older formats have different layouts)
		model.SetBits(stream, 32, 4, uint64(t.Intn(8)))
		res.Faults["forge.hdr.version"]++
		return
	}
	model.SetBits(stream, 36, 2, uint64(ckCode))
	model.SetBits(stream, 38, 5, uint64(entropy))
	model.SetBits(stream, 43, 48, transform)
	model.SetBits(stream, 91, 28, uint64(blockSize>>4))
	if h.SzMask > 0 {
		model.SetBits(stream, h.SizeBitPos, 16*h.SzMask, uint64(orig))
	}
	ck := model.HeaderChecksum(ckCode, entropy, transform, blockSize, h.SzMask, orig)
	model.SetBits(stream, h.Bits-24, 24, uint64(ck))
}

// C03: the decoder is total: arbitrary input never crashes or hangs the process.
// Violations that kill or stall the process are detected by the orchestrator
// (worker death / CPU watchdog attributed to the case in flight).
func C03(c *Case) *Result {
	res := newResult(c)
	t := c.Tape
	maxForgedBlock := 4 << 20
	if c.Thorough() {
		maxForgedBlock = 16 << 20
	}
	fam := t.Pick(4, 3, 3, 1, 1, 1)
	if c.Thorough() && t.Intn(60) == 0 {
		fam = 6
	} else if !c.Thorough() && c.Index%250 == 7 {
		fam = 6 // a few instances of the large-BWT family in quick
	}
	res.Render["family"] = []string{"mutate-codec-data", "forge-container", "forge-header", "truncate+tail", "random", "splice", "big-bwt-index"}[fam]

	o := GenOpts{MaxJobs: 8, MaxBlock: 32 * 1024, ExactHint: true, NoChecksum: t.Intn(4) != 0, MaxChain: 8}
	var cfg Config
	var data, stream []byte

	if fam == 6 {
		// block > 4 MiB so that the inverse BWT runs its worker goroutines; forge a secondary primary index
		cfg = Config{Transform: "BWT", Entropy: "NONE", BlockSize: 4*1024*1024 + 16*(1+t.Intn(4096)), Jobs: 1, DecJobs: 1 + t.Intn(8), Hint: "absent"}
		if t.Intn(3) == 0 {
			cfg.Transform = "BWT+ZRLT"
		}
		data = GenData("text", cfg.BlockSize, t.Seed())
		s, err := plainCompress(cfg, data)
		if err != nil {
			res.Verdict = "skip"
			res.Detail = err.Error()
			return res
		}
		stream = append([]byte(nil), s...)
		parsed, perr := model.Parse(stream, false, 0)
		if perr != nil || len(parsed.Blocks) == 0 {
			res.Verdict = "skip"
			return res
		}
		b := parsed.Blocks[0]
		// BWT block codec header: mode byte then primary indexes at the start of the body (entropy NONE)
		nmut := 1 + t.Intn(3)
		for i := 0; i < nmut; i++ {
			// mode byte + 8 primary indexes of 3 bytes at the start of the body
			pos := b.BodyPos + 8*t.Intn(25)
			if t.Intn(4) == 0 {
				pos = b.BodyPos + t.Intn(8*60)
			}
			model.SetBits(stream, pos, 8, uint64(t.Intn(256)))
		}
		res.Faults["forge.bwt.index"]++
		res.Probes["big.bwt.blocks"]++
	} else {
		switch t.Intn(3) {
		case 0:
			// entropy NONE: transform headers in the clear
			cfg = GenConfig(t, o)
			cfg.Entropy = "NONE"
		case 1:
			// transform NONE: entropy tables at known offsets
			cfg = GenConfig(t, o)
			cfg.Transform = "NONE"
		default:
			cfg = GenConfig(t, o)
		}
		if expensiveEntropy(cfg) {
			cfg.BlockSize = min(cfg.BlockSize, 4096)
			cfg.Jobs, cfg.DecJobs = 1, min(cfg.DecJobs, 2)
		}
		rec := GenDataRecipe(t, cfg.BlockSize, 4)
		if rec.Len == 0 {
			rec.Len = 100 + t.Intn(3000)
		}
		data = rec.Bytes()
		hintValue(&cfg, len(data), t)
		res.Render["data"] = rec
		s, err := plainCompress(cfg, data)
		if err != nil {
			res.Verdict = "skip"
			res.Detail = "stream could not be produced: " + err.Error()
			return res
		}
		stream = append([]byte(nil), s...)
	}
	res.Cfg = fmt.Sprintf("fam%d/%s", fam, cfg.Sig())
	res.Render["config"] = cfg
	parsed, perr := model.Parse(stream, false, 0)
	if perr != nil {
		parsed = nil
	}

	// several mutated variants of the same valid stream per case (the stream is produced once)
	base := stream
	variants := 1
	if fam != 6 {
		variants = 4 + t.Intn(5)
	}
	for v := 0; v < variants; v++ {
		stream = append([]byte(nil), base...)
		if v > 0 {
			fam = t.Pick(4, 3, 3, 1, 1, 1)
		}
		res.Probes["variants"]++
		switch fam {
		case 0:
			// mutations aimed at the codec data of the blocks: first bytes (headers, tables), anywhere, last bytes
			n := 1 + t.Intn(6)
			for i := 0; i < n; i++ {
				lo, hi := 26*8, len(stream)*8
				if parsed != nil && len(parsed.Blocks) > 0 {
					b := parsed.Blocks[t.Intn(len(parsed.Blocks))]
					lo, hi = b.BodyPos, b.EndPos
					if t.Intn(2) == 0 {
						hi = min(hi, lo+8*48)
					}
				}
				if hi <= lo {
					continue
				}
				pos := lo + t.Intn(hi-lo)
				// byte-aligned with respect to the block body in half of the cases (codec fields are bytes)
				if t.Intn(2) == 0 && parsed != nil && len(parsed.Blocks) > 0 {
					pos = lo + 8*((pos-lo)/8)
				}
				switch t.Intn(7) {
				case 0:
					model.FlipBit(stream, pos)
				case 1:
					model.SetBits(stream, pos, min(8, len(stream)*8-pos), uint64(t.Intn(256)))
				case 2:
					model.SetBits(stream, pos, min(8, len(stream)*8-pos), 0xFF)
				case 3:
					// zero is special in most codecs: zero length, zero distance, zero run, zero count
					model.SetBits(stream, pos, min(8, len(stream)*8-pos), 0)
				case 4:
					model.SetBits(stream, pos, min(8*(2+t.Intn(3)), len(stream)*8-pos), 0)
				case 5:
					model.SetBits(stream, pos, min(8, len(stream)*8-pos), uint64([]int{1, 2, 0x7F, 0x80, 0xFE}[t.Intn(5)]))
				default:
					model.SetBits(stream, pos, min(32, len(stream)*8-pos), uint64(t.Intn(1<<31)))
				}
				res.Faults["store.mutate"]++
			}
		case 1:
			// forged container fields
			if parsed != nil && len(parsed.Blocks) > 0 {
				b := parsed.Blocks[t.Intn(len(parsed.Blocks))]
				switch t.Intn(5) {
				case 0:
					model.SetBits(stream, b.RecordPos, 5, uint64(t.Intn(32))) // width of the length field
					res.Faults["forge.len.width"]++
				case 1:
					model.SetBits(stream, b.LenPos, b.LenWidth, uint64(t.Intn(1<<uint(min(b.LenWidth, 30)))))
					res.Faults["forge.len.value"]++
				case 2:
					model.SetBits(stream, b.PayloadPos, 8, uint64(t.Intn(256))) // mode byte: copy flag, size of size, skip flags
					res.Faults["forge.mode"]++
				case 3:
					model.SetBits(stream, b.PreLenPos, b.PreLenBits, uint64(t.Intn(1<<uint(min(b.PreLenBits, 30)))))
					res.Faults["forge.prelen"]++
				default:
					model.SetBits(stream, b.LenPos, b.LenWidth, 0) // early end marker
					res.Faults["forge.endmarker"]++
				}
			} else {
				model.FlipBit(stream, t.Intn(len(stream)*8))
			}
		case 2:
			if parsed != nil {
				forgeHeader(t, stream, parsed.Hdr, res, maxForgedBlock)
			}
		case 3:
			cut := t.Intn(len(stream) + 1)
			stream = stream[:cut]
			g := sim.NewSplitMix(t.Seed())
			tail := t.Intn(64)
			for i := 0; i < tail; i++ {
				stream = append(stream, byte(g.Next()))
			}
			res.Faults["truncate+tail"]++
		case 4:
			g := sim.NewSplitMix(t.Seed())
			keep := 0
			if t.Intn(2) == 0 && parsed != nil {
				keep = parsed.Hdr.Bits / 8 // valid header, random body
			}
			for i := keep; i < len(stream); i++ {
				stream[i] = byte(g.Next())
			}
			res.Faults["random.body"]++
		case 5:
			// splice: duplicate / move a chunk of the stream
			if len(stream) > 40 {
				a := 20 + t.Intn(len(stream)-20)
				l := 1 + t.Intn(min(64, len(stream)-a))
				b := 20 + t.Intn(len(stream)-20)
				chunk := append([]byte(nil), stream[a:a+l]...)
				stream = append(stream[:b:b], append(chunk, stream[b:]...)...)
				res.Faults["splice"]++
			}
		}

		jobs := 1 + t.Intn(8)
		if fam == 6 {
			jobs = cfg.DecJobs
		}
		if expensiveEntropy(cfg) {
			jobs = min(jobs, 2)
		}
		sizes := readSizes(t, max(cfg.BlockSize, 1024))
		spec := ReaderSpec{Jobs: jobs, RBuf: GenBuf(t)}
		limit := 8*len(data) + 1<<20
		ro := simDecode(c, res, simNoHooks, spec, stream, sizes, 1+t.Intn(3), limit)
		res.NonTriv = true
		if res.Verdict == "fail" {
			return res
		}
		if ro.Panic != nil {
			return res.fail("panic-escaped", "panic escaped the Reader API on a malformed stream: %v", ro.Panic)
		}
		switch {
		case ro.NewErr != nil:
			res.Probes["rejected.at.construction"]++
		case isEOF(ro.Err):
			res.Probes["decoded.to.eof"]++
		case ro.Err != nil:
			res.Probes["rejected.with.error"]++
		}
	}
	return res
}
