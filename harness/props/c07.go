package props

import (
	"bytes"
	"fmt"
	"io"

	"github.com/flanglet/kanzi-go/v2/verifharness/model"
	"github.com/flanglet/kanzi-go/v2/verifharness/sim"
)

func init() { Registry["C07"] = C07 }

type nopCloser struct{ *bytes.Buffer }

func (nopCloser) Close() error { return nil }

// plainCompress produces a valid stream outside any simulation.
func plainCompress(cfg Config, data []byte) ([]byte, error) {
	var buf bytes.Buffer
	out := Compress(cfg, data, nil, nopCloser{&buf})
	if err := out.Err(); err != nil {
		return nil, err
	}
	return buf.Bytes(), nil
}

type bytesSource struct{ *bytes.Reader }

func (bytesSource) Close() error { return nil }

// plainDecompress decodes outside any simulation.
func plainDecompress(spec ReaderSpec, stream []byte) ROutcome {
	return Decompress(spec, bytesSource{bytes.NewReader(stream)}, nil, 0, 0)
}

// monitorHooks wires the hand-off automaton into the kernel.
func monitorHooks(mon *model.HandoffMonitor, h *sim.Hooks) {
	h.OnEvent = func(s *sim.Sched, t *sim.TaskInfo, ev *sim.Event) error {
		return mon.OnEvent(t.Idx, t.Parent, ev.Name, ev.A, ev.B)
	}
}

// C07: block hand-off protocol — exclusive, ordered, always terminating, failures reported.
func C07(c *Case) *Result {
	res := newResult(c)
	t := c.Tape
	maxJobs := 16
	if c.Thorough() {
		maxJobs = 64
	}
	cfg := GenConfig(t, GenOpts{Cheap: true, MaxJobs: maxJobs, MaxBlock: 8192, ExactHint: true, MaxChain: 3})
	side := t.Pick(1, 1) // 0 = compressor, 1 = decompressor
	// number of blocks relative to the batch size: partial batches, several batches, end marker inside a batch
	jobs := cfg.Jobs
	if side == 1 {
		jobs = cfg.DecJobs
	}
	maxBlocks := min(3*jobs+2, 80)
	rec := GenDataRecipe(t, cfg.BlockSize, maxBlocks)
	if t.Intn(3) == 0 {
		rec.Shape = "random" // incompressible: large payloads, more shared-stream I/O
	}
	data := rec.Bytes()
	hintValue(&cfg, len(data), t)
	cfg.WBuf = GenBuf(t)
	cfg.RBuf = GenBuf(t)
	res.Cfg = fmt.Sprintf("side%d/%s", side, cfg.Sig())
	res.Render["config"] = cfg
	res.Render["data"] = rec
	res.Render["side"] = []string{"compress", "decompress"}[side]

	mon := model.NewHandoffMonitor()
	var hooks sim.Hooks
	monitorHooks(mon, &hooks)

	// fault family
	fam := t.Pick(3, 4, 3)
	res.Render["fault_family"] = []string{"none", "task.fail", "io"}[fam]

	if side == 0 {
		pieces := GenPartition(t, len(data), cfg.BlockSize)
		nblocks := (len(data) + cfg.BlockSize - 1) / cfg.BlockSize
		failBlock, failPoint := -1, ""
		ioK, ioKind := -1, 0
		switch fam {
		case 1:
			if nblocks > 0 {
				failBlock = 1 + t.Intn(nblocks)
				failPoint = []string{"enc.compute", "enc.acquired", "enc.emitted", "enc.wait", "enc.entropy", "enc.entropy.done"}[t.Intn(6)]
			}
		case 2:
			ioK = t.Intn(2 + len(data)/max(cfg.WBuf, 1024))
			ioKind = t.Intn(3)
		}
		res.Render["fault"] = map[string]any{"failBlock": failBlock, "failPoint": failPoint, "ioK": ioK, "ioKind": ioKind}
		stuck := false
		// a second, independent task failure in a quarter of the task.fail cases
		failBlock2, failPoint2 := -1, ""
		if fam == 1 && nblocks > 1 && t.Intn(4) == 0 {
			failBlock2 = 1 + t.Intn(nblocks)
			failPoint2 = []string{"enc.compute", "enc.acquired", "enc.emitted", "enc.wait", "enc.entropy", "enc.entropy.done"}[t.Intn(6)]
			res.Probes["two.task.failures"]++
		}
		hooks.OnPoint = func(s *sim.Sched, ti *sim.TaskInfo, name string, arg int) error {
			if (failBlock > 0 && name == failPoint && arg == failBlock) || (failBlock2 > 0 && name == failPoint2 && arg == failBlock2) {
				s.Fault("task.fail@" + name)
				return &sim.InjectedError{What: fmt.Sprintf("task failure at %s block %d", name, arg)}
			}
			return nil
		}
		hooks.OnIO = func(s *sim.Sched, ti *sim.TaskInfo, obj, op string, k, n int) sim.IOAction {
			if op != "write" {
				return sim.IOAction{}
			}
			if stuck {
				return sim.IOAction{Kind: sim.IOErr, Err: &sim.InjectedError{What: "sink stays failed"}}
			}
			if ioK >= 0 && k == ioK {
				if ti.Idx != 0 {
					s.Probe("sink.fault.while.task.holds")
				}
				switch ioKind {
				case 0:
					s.Fault("sink.err.transient")
					return sim.IOAction{Kind: sim.IOErr, Err: &sim.InjectedError{What: "sink write error (transient)"}}
				case 1:
					s.Fault("sink.err.permanent")
					stuck = true
					return sim.IOAction{Kind: sim.IOErr, Err: &sim.InjectedError{What: "sink write error (permanent)"}}
				default:
					s.Fault("sink.torn")
					stuck = true
					return sim.IOAction{Kind: sim.IOTorn, N: n / 2, Err: &sim.InjectedError{What: "sink write torn"}}
				}
			}
			return sim.IOAction{}
		}

		var missed string
		s := sim.Run(t, sim.Options{Hooks: hooks, KeepTrace: c.KeepTrace}, func(env *sim.Env) {
			sink := sim.NewSimSink(env.S, "out")
			w, err := OpenWriter(cfg, sink)
			if err != nil {
				missed = "constructor rejected a legal configuration: " + err.Error()
				return
			}
			check := func(call string, err error) {
				var failed bool
				env.Sync(func() { failed = mon.Failed(0); mon.ResetFailed(0) })
				if failed && err == nil && missed == "" {
					missed = "a block task failed during " + call + " but the call returned no error"
				}
			}
			off := 0
			for k, l := range pieces {
				_, err := w.Write(data[off : off+l])
				check(fmt.Sprintf("Write#%d", k), err)
				off += l
				if err != nil {
					break
				}
			}
			err = w.Close()
			check("Close", err)
		})
		res.absorb(s)
		if missed != "" {
			res.fail("failure-not-reported", "%s", missed)
		}
	} else {
		stream, err := plainCompress(cfg, data)
		if err != nil {
			// encoder-side codec defects are C01's business
			res.Verdict = "skip"
			res.Detail = "stream could not be produced: " + err.Error()
			return res
		}
		stream = append([]byte(nil), stream...)
		parsed, perr := model.Parse(stream, cfg.Headerless, cfg.Checksum)
		failBlock, failPoint := -1, ""
		ioK, ioKind := -1, 0
		cut := -1
		nblocks := (len(data) + cfg.BlockSize - 1) / cfg.BlockSize
		switch fam {
		case 1:
			switch t.Intn(3) {
			case 0:
				if nblocks > 0 {
					failBlock = 1 + t.Intn(nblocks)
					failPoint = []string{"dec.acquired", "dec.published", "dec.publish", "dec.entropy", "dec.entropy.done"}[t.Intn(5)]
				}
			case 1:
				// damage inside a block body: the task fails after publishing
				if perr == nil && len(parsed.Blocks) > 0 {
					b := parsed.Blocks[t.Intn(len(parsed.Blocks))]
					if b.EndPos > b.BodyPos {
						model.FlipBit(stream, b.BodyPos+t.Intn(b.EndPos-b.BodyPos))
						res.Faults["store.flip"]++
					}
				}
			default:
				// damage in the block header (mode byte / announced length): fails right after publishing
				if perr == nil && len(parsed.Blocks) > 0 {
					b := parsed.Blocks[t.Intn(len(parsed.Blocks))]
					model.FlipBit(stream, b.PayloadPos+t.Intn(min(16, b.PayloadLen)))
					res.Faults["store.flip.blockheader"]++
				}
			}
		case 2:
			switch t.Intn(2) {
			case 0:
				ioK = t.Intn(2 + len(stream)/max(cfg.RBuf, 1024))
				ioKind = t.Intn(3)
			default:
				if len(stream) > 0 {
					cut = t.Intn(len(stream))
				}
			}
		}
		res.Render["fault"] = map[string]any{"failBlock": failBlock, "failPoint": failPoint, "ioK": ioK, "ioKind": ioKind, "cut": cut}
		stuck := false
		hooks.OnPoint = func(s *sim.Sched, ti *sim.TaskInfo, name string, arg int) error {
			if failBlock > 0 && name == failPoint && arg == failBlock {
				s.Fault("task.fail@" + name)
				return &sim.InjectedError{What: fmt.Sprintf("task failure at %s block %d", name, arg)}
			}
			return nil
		}
		hooks.OnIO = func(s *sim.Sched, ti *sim.TaskInfo, obj, op string, k, n int) sim.IOAction {
			if op != "read" {
				return sim.IOAction{}
			}
			if stuck {
				return sim.IOAction{Kind: sim.IOErr, Err: &sim.InjectedError{What: "source stays failed"}}
			}
			if ioK >= 0 && k == ioK {
				if ti.Idx != 0 {
					s.Probe("src.fault.while.task.holds")
				}
				switch ioKind {
				case 0:
					s.Fault("src.err.transient")
					return sim.IOAction{Kind: sim.IOErr, Err: &sim.InjectedError{What: "source read error (transient)"}}
				case 1:
					s.Fault("src.err.permanent")
					stuck = true
					return sim.IOAction{Kind: sim.IOErr, Err: &sim.InjectedError{What: "source read error (permanent)"}}
				default:
					s.Fault("src.err.with.data")
					stuck = true
					return sim.IOAction{Kind: sim.IOTorn, N: 1 + n/3, Err: &sim.InjectedError{What: "source read error with data"}}
				}
			}
			return sim.IOAction{}
		}
		if cut >= 0 {
			stream = stream[:cut]
			res.Faults["src.eof"]++
		}
		sizes := GenPartition(t, 4*cfg.BlockSize, cfg.BlockSize)
		// skipped-block outcomes: decode a block range in a quarter of the cases (whole
		// batches of skipped blocks included)
		from, to := 0, 0
		if t.Intn(4) == 0 {
			from = 1 + t.Intn(nblocks+2)
			to = from + t.Intn(nblocks+3)
			res.Probes["decode.with.block.range"]++
			if from > cfg.DecJobs {
				res.Probes["decode.batch.all.skipped"]++
			}
		}
		res.Render["range"] = []int{from, to}

		var missed string
		s := sim.Run(t, sim.Options{Hooks: hooks, KeepTrace: c.KeepTrace}, func(env *sim.Env) {
			src := sim.NewSimSource(env.S, "in", stream)
			rd, err := NewReader(ReaderSpec{Jobs: cfg.DecJobs, Headerless: cfg.Headerless, Cfg: cfg, OrigSize: cfg.HintValue, RBuf: cfg.RBuf, From: from, To: to}, src)
			if err != nil {
				missed = "reader constructor failed: " + err.Error()
				return
			}
			total := 0
			for k := 0; k < 100000; k++ {
				l := sizes[k%len(sizes)]
				if l == 0 {
					l = 1
				}
				buf := make([]byte, l)
				n, err := rd.Read(buf)
				total += n
				var failed bool
				env.Sync(func() { failed = mon.Failed(0); mon.ResetFailed(0) })
				if failed && (err == nil || err == io.EOF) && missed == "" {
					missed = fmt.Sprintf("a block task failed during Read#%d but the call returned %v", k, err)
				}
				if err != nil {
					break
				}
				if total > len(data)+cfg.BlockSize {
					break
				}
			}
			rd.Close()
		})
		res.absorb(s)
		if missed != "" {
			res.fail("failure-not-reported", "%s", missed)
		}
	}

	res.Probes["handoff.acquisitions"] += mon.Acquisitions
	res.Probes["handoff.cancel.observed"] += mon.CancelObserved
	res.Probes["handoff.failed.tasks"] += mon.FailedTasks
	res.Probes["handoff.batches"] += mon.Batches
	res.Probes["handoff.io.by.holder"] += mon.IOByHolder
	res.Probes["handoff.end.of.stream.task"] += mon.EndOfStream
	res.NonTriv = res.Tasks > 2
	return res
}

// PlainRoundTrip compresses and decompresses without simulation; "" means success.
func PlainRoundTrip(cfg Config, data []byte) string {
	stream, err := plainCompress(cfg, data)
	if err != nil {
		return "compress: " + err.Error()
	}
	ro := plainDecompress(ReaderSpec{Jobs: cfg.DecJobs, Headerless: cfg.Headerless, Cfg: cfg}, stream)
	if ro.Panic != nil {
		return fmt.Sprintf("decompress panic: %v", ro.Panic)
	}
	if !isEOF(ro.Err) {
		return "decompress: " + errStr(ro.Err)
	}
	if d := diffAt(ro.Data, data); d >= 0 {
		return fmt.Sprintf("mismatch at %d", d)
	}
	return ""
}

// PlainCompress is plainCompress for the triage tools.
func PlainCompress(cfg Config, data []byte) ([]byte, error) { return plainCompress(cfg, data) }

// PlainDecode decodes with the current Reader outside any simulation; "" = decodes to want.
func PlainDecode(cfg Config, stream, want []byte) string {
	ro := plainDecompress(ReaderSpec{Jobs: cfg.DecJobs, Headerless: cfg.Headerless, Cfg: cfg}, stream)
	if !isEOF(ro.Err) {
		return "error: " + errStr(ro.Err)
	}
	if d := diffAt(ro.Data, want); d >= 0 {
		return fmt.Sprintf("mismatch at %d", d)
	}
	return ""
}
