package props

import (
	"fmt"

	"github.com/flanglet/kanzi-go/v2/verifharness/sim"
)

func init() { Registry["C08"] = C08 }

type apiCall struct {
	Name string `json:"call"`
	Err  string `json:"err"`
	N    int    `json:"n"`
}

// writerRun drives one Writer scenario with a fault at the k-th sink call (k < 0: none).
// kind: 0 transient (0,err), 1 permanent (0,err), 2 torn+permanent.
type writerRun struct {
	calls     []apiCall
	sink      []byte
	sinkCalls int
	fired     bool
	firedAt   int // index of the API call during which the fault fired
	panicked  any
	closedOK  bool
	sinkClose int
}

func runWriter(c *Case, res *Result, cfg Config, data []byte, pieces []int, k int, kind int, retries int, forceLowest bool) writerRun {
	var wr writerRun
	wr.firedAt = -1
	stuck := false
	curCall := 0
	total := 0
	k2 := k + 1 + (k*7+retries)%3 // kind 3: the transient failure strikes twice
	hooks := sim.Hooks{OnIO: func(s *sim.Sched, ti *sim.TaskInfo, obj, op string, kk, n int) sim.IOAction {
		idx := total
		total++
		if stuck {
			return sim.IOAction{Kind: sim.IOErr, Err: &sim.InjectedError{What: "sink stays failed"}}
		}
		if idx != k && !(kind == 3 && idx == k2) {
			return sim.IOAction{}
		}
		if !wr.fired {
			wr.firedAt = curCall
		}
		wr.fired = true
		switch {
		case op == "close":
			if kind != 0 {
				stuck = true
			}
			s.Fault("sink.closeerr")
			return sim.IOAction{Kind: sim.IOErr, Err: &sim.InjectedError{What: "sink close error"}}
		case kind == 0 || kind == 3:
			s.Fault("sink.err.transient")
			return sim.IOAction{Kind: sim.IOErr, Err: &sim.InjectedError{What: "sink write error (transient)"}}
		case kind == 1:
			s.Fault("sink.err.permanent")
			stuck = true
			return sim.IOAction{Kind: sim.IOErr, Err: &sim.InjectedError{What: "sink write error (permanent)"}}
		default:
			s.Fault("sink.torn")
			stuck = true
			return sim.IOAction{Kind: sim.IOTorn, N: n / 2, Err: &sim.InjectedError{What: "sink write torn (disk full)"}}
		}
	}}
	opts := sim.Options{Hooks: hooks, KeepTrace: c.KeepTrace}
	if forceLowest {
		opts.ForcePolicy = true
		opts.FixedPolicy = sim.PolLowest
	}
	sim.Heartbeat()
	s := sim.Run(c.Tape, opts, func(env *sim.Env) {
		defer func() {
			if r := recover(); r != nil {
				wr.panicked = r
			}
		}()
		sink := sim.NewSimSink(env.S, "out")
		defer func() { wr.sink = sink.Data; wr.sinkClose = sink.Closes }()
		w, err := OpenWriter(cfg, sink)
		if err != nil {
			wr.calls = append(wr.calls, apiCall{"new", err.Error(), 0})
			return
		}
		off := 0
		failed := false
		for i, l := range pieces {
			env.Sync(func() { curCall = len(wr.calls) })
			n, err := w.Write(data[off : off+l])
			wr.calls = append(wr.calls, apiCall{fmt.Sprintf("Write#%d(%d)", i, l), errStr(err), n})
			off += l
			if err != nil {
				failed = true
				break
			}
		}
		_ = failed
		for r := 0; r <= retries; r++ {
			env.Sync(func() { curCall = len(wr.calls) })
			err := w.Close()
			wr.calls = append(wr.calls, apiCall{"Close", errStr(err), 0})
			if err == nil {
				wr.closedOK = true
				break
			}
		}
	})
	wr.sinkCalls = total
	res.absorb(s)
	return wr
}

// C08: I/O failures are never swallowed (fault enumeration over the call index).
func C08(c *Case) *Result {
	res := newResult(c)
	t := c.Tape
	cfg := GenConfig(t, GenOpts{Cheap: true, MaxJobs: 4, MaxBlock: 4096, ExactHint: true, Headerless: true, MaxChain: 2})
	cfg.DecJobs = min(cfg.DecJobs, 4)
	side := t.Pick(1, 1)
	jobs := cfg.Jobs
	if side == 1 {
		jobs = cfg.DecJobs
	}
	rec := GenDataRecipe(t, cfg.BlockSize, 2*jobs+2)
	if t.Intn(2) == 0 {
		rec.Shape = "random"
	}
	data := rec.Bytes()
	hintValue(&cfg, len(data), t)
	cfg.WBuf = GenBuf(t)
	cfg.RBuf = GenBuf(t)
	if t.Intn(2) == 0 {
		// small buffers: many sink/source calls, faults land inside block tasks
		cfg.WBuf, cfg.RBuf = 1024, 1024
	}
	res.Cfg = fmt.Sprintf("side%d/%s/%s", side, cfg.Sig(), rec.Shape)
	res.Render["config"] = cfg
	res.Render["data"] = rec
	res.Render["side"] = []string{"writer", "reader"}[side]

	if side == 0 {
		pieces := GenPartition(t, len(data), cfg.BlockSize)
		res.Render["write_pieces"] = headInts(pieces, 12)
		base := runWriter(c, res, cfg, data, pieces, -1, 0, 0, true)
		if res.Verdict == "fail" {
			return res
		}
		if base.panicked != nil || !base.closedOK {
			res.Verdict = "skip"
			res.Detail = fmt.Sprintf("fault-free run does not succeed (C01's business): %v %v", base.panicked, base.calls)
			return res
		}
		good := base.sink
		res.Render["sink_calls_fault_free"] = base.sinkCalls
		res.Probes["scenarios.writer"]++
		for k := 0; k < base.sinkCalls; k++ {
			kind := t.Intn(4)
			retries := t.Intn(4)
			wr := runWriter(c, res, cfg, data, pieces, k, kind, retries, false)
			res.Probes["fault.points.writer"]++
			if kind == 3 {
				res.Probes["fault.repeated.transient"]++
			}
			ctx := fmt.Sprintf("sink call #%d of %d fails (%s), %d Close retries; API calls: %v", k, base.sinkCalls, []string{"transient", "permanent", "torn+permanent", "transient, twice"}[kind], retries, wr.calls)
			if res.Verdict == "fail" {
				res.Detail = ctx + ": " + res.Detail
				return res
			}
			if wr.panicked != nil {
				return res.fail("panic-escaped", "%s: panic escaped the Writer API: %v", ctx, wr.panicked)
			}
			if !wr.fired {
				// schedules may differ in the number of calls (they must not, C04) - not this property's business
				res.Probes["fault.not.reached"]++
				continue
			}
			// some call at or after the failing one must report an error before success is reported
			reported := false
			for i := wr.firedAt; i < len(wr.calls); i++ {
				if wr.calls[i].Err != "<nil>" {
					reported = true
					break
				}
				if wr.calls[i].Name == "Close" {
					break
				}
			}
			if wr.closedOK {
				// Close reported success: every byte must have reached the sink
				if d := diffAt(wr.sink, good); d >= 0 {
					return res.fail("close-ok-data-lost", "%s: Close returned nil but the sink holds %d bytes that differ from the complete stream (%d bytes) at byte %d", ctx, len(wr.sink), len(good), d)
				}
				res.Probes["close.retry.delivered.everything"]++
			}
			if !reported {
				return res.fail("failure-swallowed", "%s: the sink failed during API call #%d but no error was returned by that call or a later one before success was reported", ctx, wr.firedAt)
			}
			if wr.firedAt >= 0 && wr.firedAt < len(wr.calls) && wr.calls[wr.firedAt].Name == "Close" {
				res.Probes["fault.during.close"]++
			} else {
				res.Probes["fault.during.write"]++
			}
		}
		res.NonTriv = base.sinkCalls > 0
		return res
	}

	// ---- reader
	stream, err := plainCompress(cfg, data)
	if err != nil {
		res.Verdict = "skip"
		res.Detail = "stream could not be produced: " + err.Error()
		return res
	}
	sizes := readSizes(t, cfg.BlockSize)
	type readerRun struct {
		data     []byte
		results  []string
		eof      bool
		fired    bool
		panicked any
		reads    int
		stuckNil bool
		// bytes the source delivered after the failed call (the reader went on reading)
		moreAfterFault int
	}
	// the source delivers whole reads, or pieces whose size is not a multiple of 8 (pipes): the
	// input bitstream then tops a refill up with further reads, each of which may be the failing one
	chunk := 0
	if t.Intn(3) == 0 {
		chunk = max(1+t.Intn(2000), len(stream)/40+1)
		res.Probes["reader.short.reads"]++
	}
	res.Render["source_chunk"] = chunk
	run := func(k int, kind int, retries int, forceLowest bool) readerRun {
		var rr readerRun
		stuck := false
		total := 0
		var srcRef *sim.SimSource
		posAtFault := -1
		hooks := sim.Hooks{OnIO: func(s *sim.Sched, ti *sim.TaskInfo, obj, op string, kk, n int) sim.IOAction {
			if op != "read" {
				return sim.IOAction{}
			}
			idx := total
			total++
			if stuck {
				return sim.IOAction{Kind: sim.IOErr, Err: &sim.InjectedError{What: "source stays failed"}}
			}
			if idx != k {
				if chunk > 0 && n > chunk {
					return sim.IOAction{N: chunk}
				}
				return sim.IOAction{}
			}
			rr.fired = true
			if srcRef != nil {
				posAtFault = srcRef.Pos
			}
			if ti.Idx != 0 {
				s.Probe("src.fault.inside.block.task")
			}
			switch kind {
			case 0:
				s.Fault("src.err.transient")
				return sim.IOAction{Kind: sim.IOErr, Err: &sim.InjectedError{What: "source read error (transient)"}}
			case 1:
				s.Fault("src.err.permanent")
				stuck = true
				return sim.IOAction{Kind: sim.IOErr, Err: &sim.InjectedError{What: "source read error (permanent)"}}
			default:
				s.Fault("src.err.with.data")
				stuck = true
				return sim.IOAction{Kind: sim.IOTorn, N: 1 + n/3, Err: &sim.InjectedError{What: "source read error with data"}}
			}
		}}
		opts := sim.Options{Hooks: hooks, KeepTrace: c.KeepTrace}
		if forceLowest {
			opts.ForcePolicy = true
			opts.FixedPolicy = sim.PolLowest
		}
		sim.Heartbeat()
		s := sim.Run(t, opts, func(env *sim.Env) {
			defer func() {
				if r := recover(); r != nil {
					rr.panicked = r
				}
			}()
			src := sim.NewSimSource(env.S, "in", stream)
			srcRef = src
			var rd interface {
				Read([]byte) (int, error)
				Close() error
			}
			var err error
			for a := 0; a <= retries; a++ {
				rd, err = NewReader(cfg.readerSpec(), src)
				if err == nil {
					break
				}
			}
			if err != nil {
				rr.results = append(rr.results, "new: "+err.Error())
				return
			}
			defer rd.Close()
			left := retries
			zero := 0
			for i := 0; i < 1000000; i++ {
				l := sizes[i%len(sizes)]
				buf := make([]byte, l)
				n, err := rd.Read(buf)
				rr.data = append(rr.data, buf[:n]...)
				if err != nil {
					rr.results = append(rr.results, err.Error())
					if isEOF(err) {
						rr.eof = true
						return
					}
					if left == 0 {
						return
					}
					left--
					continue
				}
				if n == 0 && l > 0 {
					zero++
					if zero > 200 {
						rr.stuckNil = true
						return
					}
				} else if n > 0 {
					zero = 0
				}
				if len(rr.data) > len(data)+cfg.BlockSize {
					return
				}
			}
		})
		rr.reads = total
		if srcRef != nil && posAtFault >= 0 && kind == 0 {
			// (the other kinds leave the source failed: nothing can be obtained after them)
			rr.moreAfterFault = srcRef.Pos - posAtFault
		}
		res.absorb(s)
		return rr
	}

	base := run(-1, 0, 0, true)
	if res.Verdict == "fail" {
		return res
	}
	if !base.eof || diffAt(base.data, data) >= 0 {
		res.Verdict = "skip"
		res.Detail = "fault-free decode does not succeed (C01's business)"
		return res
	}
	res.Render["source_reads_fault_free"] = base.reads
	res.Probes["scenarios.reader"]++
	for k := 0; k < base.reads; k++ {
		kind := t.Intn(3)
		retries := t.Intn(3)
		rr := run(k, kind, retries, false)
		res.Probes["fault.points.reader"]++
		ctx := fmt.Sprintf("source read #%d of %d fails (%s), caller retries %d times; results: %v", k, base.reads, []string{"transient", "permanent", "with data+permanent"}[kind], retries, rr.results)
		if res.Verdict == "fail" {
			res.Detail = ctx + ": " + res.Detail
			return res
		}
		if rr.panicked != nil {
			return res.fail("panic-escaped", "%s: panic escaped the Reader API: %v", ctx, rr.panicked)
		}
		if !rr.fired {
			res.Probes["fault.not.reached"]++
			continue
		}
		if rr.stuckNil {
			return res.fail("no-progress", "%s: Read keeps returning (0, nil)", ctx)
		}
		if !isPrefix(rr.data, data) {
			return res.fail("wrong-bytes", "%s: delivered bytes are not a prefix of the original (first difference at %d)", ctx, diffAt(rr.data, data[:min(len(rr.data), len(data))]))
		}
		if rr.eof && len(rr.data) != len(data) {
			return res.fail("error-turned-into-eof", "%s: end of stream reported after %d of %d bytes: a source error became a clean end of stream", ctx, len(rr.data), len(data))
		}
		if rr.eof && len(rr.results) == 1 {
			// no call reported the failure. Tolerated only when the failed call was made after the last
			// byte of the stream had been obtained (a read-ahead whose result was never needed): if the
			// reader went on and obtained more bytes from the source, it recovered silently
			if rr.moreAfterFault > 0 {
				return res.fail("error-swallowed", "%s: the reader obtained %d more bytes from the source after the failed call, read the stream to its end and no call reported the failure", ctx, rr.moreAfterFault)
			}
			res.Probes["fault.after.last.needed.byte"]++
		}
		if rr.eof {
			res.Probes["fault.survived.complete.data"]++
		} else {
			res.Probes["fault.reported"]++
		}
	}
	res.NonTriv = base.reads > 0
	return res
}
