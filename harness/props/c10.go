package props

import (
	"crypto/sha256"
	"embed"
	"encoding/hex"
	"encoding/json"
	"fmt"
)

func init() { Registry["C10"] = C10 }

//go:embed corpusdata
var corpusFS embed.FS

// CorpusEntry describes one archived stream produced by the pinned reference encoder.
type CorpusEntry struct {
	File   string     `json:"file"`
	Cfg    Config     `json:"config"`
	Data   DataRecipe `json:"data"`
	SHA256 string     `json:"sha256_of_original"`
	Len    int        `json:"len_of_original"`
}

var corpusIndex []CorpusEntry

func loadCorpus() []CorpusEntry {
	if corpusIndex != nil {
		return corpusIndex
	}
	raw, err := corpusFS.ReadFile("corpusdata/index.json")
	if err != nil {
		return nil
	}
	json.Unmarshal(raw, &corpusIndex)
	return corpusIndex
}

// C10: streams written by the pinned reference encoder keep decoding (format stability).
func C10(c *Case) *Result {
	res := newResult(c)
	t := c.Tape
	corpus := loadCorpus()

	if c.Index < len(corpus) {
		// archived corpus entry: decode with the current Reader under the scheduler
		e := corpus[c.Index]
		stream, err := corpusFS.ReadFile("corpusdata/" + e.File)
		if err != nil {
			return res.fail("harness-corpus", "corpus file %s unreadable: %v", e.File, err)
		}
		cfg := e.Cfg
		cfg.DecJobs = jobsDraw(t, 8)
		cfg.RBuf = GenBuf(t)
		sizes := readSizes(t, cfg.BlockSize)
		res.Cfg = "corpus/" + e.File
		res.Render["corpus_entry"] = e
		ro := simDecode(c, res, simNoHooks, cfg.readerSpec(), stream, sizes, 0, e.Len+cfg.BlockSize+1024)
		res.NonTriv = true
		res.Probes["corpus.entries"]++
		if res.Verdict == "fail" {
			return res
		}
		if ro.NewErr != nil || ro.Panic != nil || !isEOF(ro.Err) {
			return res.fail("corpus-decode-error", "archived stream %s (%s) no longer decodes: constructor %v / panic %v / terminal %v after %d of %d bytes", e.File, e.Cfg.CodecSig(), ro.NewErr, ro.Panic, ro.Err, len(ro.Data), e.Len)
		}
		h := sha256.Sum256(ro.Data)
		if hex.EncodeToString(h[:]) != e.SHA256 {
			return res.fail("corpus-mismatch", "archived stream %s (%s) decodes to %d bytes whose SHA-256 differs from the recorded original (%d bytes)", e.File, e.Cfg.CodecSig(), len(ro.Data), e.Len)
		}
		return res
	}

	// differential: reference Writer -> (upgrade) -> current Reader, against the reference Reader
	o := GenOpts{SkipOpt: true, BigParam: true, LongChains: true, MaxJobs: 8, MaxBlock: 64 * 1024, Headerless: true, MixedCase: true}
	o.Cheap = t.Intn(3) == 0
	cfg := GenConfig(t, o)
	maxBlocks := 4
	if expensiveEntropy(cfg) {
		cfg.Jobs = min(cfg.Jobs, 2)
		cfg.DecJobs = min(cfg.DecJobs, 2)
		cfg.BlockSize = min(cfg.BlockSize, 16384)
		maxBlocks = 2
	}
	rec := GenDataRecipe(t, cfg.BlockSize, maxBlocks)
	// the codecs with content-dependent behaviour get the content they react to in half of the cases
	if t.Intn(2) == 0 {
		switch {
		case chainHas(cfg, "TEXT"):
			rec.Shape = []string{"prose", "text", "utf8"}[t.Intn(3)]
			rec.Len = max(rec.Len, min(3*cfg.BlockSize, 20000+t.Intn(40000)))
		case chainHas(cfg, "UTF"):
			rec.Shape = "utf8"
		case chainHas(cfg, "DNA"):
			rec.Shape = "dna"
		case chainHas(cfg, "EXE"):
			rec.Shape = "exe"
		case chainHas(cfg, "MM"):
			rec.Shape = []string{"wav", "bmp"}[t.Intn(2)]
		}
	}
	if t.Intn(5) == 0 {
		// boundary regime: the last (or only) block holds a power of two of bytes, or one more or
		// less. Codecs change layout with the amount of data they are given (chunk counts, small
		// block paths, number of BWT primary indexes), and `<` against `<=` at such a switch is
		// part of the format
		tl := 1 << uint(3+t.Intn(14)) // 8 .. 65536
		for tl > cfg.BlockSize {
			tl >>= 1
		}
		rec.Len = cfg.BlockSize*t.Intn(maxBlocks) + tl + t.Range(-1, 1)
		res.Probes["boundary.block.length"]++
	}
	if t.Intn(10) == 0 {
		// large-block regime: one or two blocks of 150 KiB .. 1 MiB (thorough: up to 5 MiB) of
		// compressible data. Codecs switch parameters with the amount of data in a block (chunk
		// sizes of the entropy coders inside and outside the transforms, hash and table sizes, the
		// number of BWT primary indexes): constants that only matter above some size are part of
		// the format too
		hi := 1 << 20
		if c.Thorough() {
			hi = 5 << 20
		}
		cfg.BlockSize = 256*1024 + 16*t.Intn((hi-256*1024)/16)
		big := []string{"ROLZ", "ROLZX", "LZ", "LZX", "LZP", "BWT", "BWTS", "TEXT", "RLT", "ZRLT", "MTFT", "SRT", "RANK", "PACK", "UTF", "EXE", "MM", "DNA", "NONE"}
		cfg.Transform = big[t.Intn(len(big))]
		if t.Intn(3) == 0 {
			cfg.Transform = []string{"TEXT", "RLT", "PACK", "LZP"}[t.Intn(4)] + "+" + big[t.Intn(len(big)-1)]
		}
		cfg.Entropy = []string{"NONE", "HUFFMAN", "ANS0", "ANS1", "RANGE", "FPAQ", "CM"}[t.Intn(7)]
		cfg.Jobs, cfg.DecJobs = min(cfg.Jobs, 2), min(cfg.DecJobs, 2)
		rec.Shape = []string{"prose", "text", "mixed", "utf8", "exe", "numeric", "base64", "skewed", "dna", "wav"}[t.Intn(10)]
		rec.Len = 150000 + t.Intn(cfg.BlockSize)
		if t.Intn(4) == 0 {
			rec.Len += cfg.BlockSize / 2
		}
		res.Probes["large.block.regime"]++
	}
	data := rec.Bytes()
	hintValue(&cfg, len(data), t)
	if cfg.Hint == "smaller" {
		// the pinned reference corrupts such streams itself (finding F2): precondition not met
		cfg.Hint, cfg.HintValue = "exact", int64(len(data))
	}
	cfg.RBuf = GenBuf(t)
	res.Cfg = cfg.Sig() + "/" + rec.Shape
	res.Render["config"] = cfg
	res.Render["data"] = rec

	stream, err := RefCompress(cfg, data)
	if err != nil {
		res.Verdict = "skip"
		res.Detail = "reference encoder fails on this pair: " + err.Error()
		return res
	}
	// the reference decoder runs with the same job count as the current one: whether a stream
	// decodes for every job count is C05's question, not a question of format stability
	refOut, err := RefDecompress(cfg, stream, cfg.DecJobs)
	if err != nil {
		res.Verdict = "skip"
		res.Detail = "reference decoder fails on this pair: " + err.Error()
		return res
	}
	if diffAt(refOut, data) >= 0 {
		// reference pair does not round-trip: outside the property's precondition
		res.Verdict = "skip"
		res.Detail = "reference encoder+decoder do not round-trip this pair"
		return res
	}
	sizes := readSizes(t, cfg.BlockSize)
	ro := simDecode(c, res, simNoHooks, cfg.readerSpec(), stream, sizes, 0, len(data)+2*cfg.BlockSize+1024)
	res.NonTriv = true
	res.Probes["differential.pairs"]++
	res.feat("T:" + upper(cfg.Transform))
	res.feat("E:" + upper(cfg.Entropy))
	if res.Verdict == "fail" {
		return res
	}
	if ro.NewErr != nil || ro.Panic != nil {
		return res.fail("current-reader-broken", "current reader cannot open a reference stream: %v / panic %v", ro.NewErr, ro.Panic)
	}
	if !isEOF(ro.Err) {
		return res.fail("format-drift-error", "stream written by the pinned reference encoder (%s) fails in the current decoder after %d of %d bytes: %v", cfg.CodecSig(), len(ro.Data), len(refOut), ro.Err)
	}
	if d := diffAt(ro.Data, refOut); d >= 0 {
		return res.fail("format-drift-mismatch", "stream written by the pinned reference encoder (%s) decodes differently in the current decoder (first difference at byte %d, %d vs %d bytes)", cfg.CodecSig(), d, len(ro.Data), len(refOut))
	}
	return res
}

var _ = fmt.Sprintf
