package props

import (
	"fmt"

	"github.com/flanglet/kanzi-go/v2/bitstream"
	"github.com/flanglet/kanzi-go/v2/verifharness/sim"
)

func init() { Registry["C14"] = C14 }

// bitVec is the trivially correct reference: one byte per bit.
type bitVec struct{ b []byte }

func (v *bitVec) push(val uint64, n int) {
	for i := n - 1; i >= 0; i-- {
		v.b = append(v.b, byte(val>>uint(i))&1)
	}
}

func (v *bitVec) get(pos, n int) uint64 {
	var r uint64
	for i := 0; i < n; i++ {
		r = r<<1 | uint64(v.b[pos+i])
	}
	return r
}

func (v *bitVec) image() []byte {
	out := make([]byte, (len(v.b)+7)/8)
	for i, bit := range v.b {
		if bit != 0 {
			out[i>>3] |= 1 << (7 - uint(i&7))
		}
	}
	return out
}

type bsOp struct {
	Kind  string `json:"op"` // bit | bits | array
	N     int    `json:"n"`  // bit count
	Val   uint64 `json:"val,omitempty"`
	Align int    `json:"-"`
}

func catchPanic(f func()) (p any) {
	defer func() { p = recover() }()
	f()
	return nil
}

// C14: bitstream writer and reader are exact mirrors for every operation sequence.
func C14(c *Case) *Result {
	res := newResult(c)
	t := c.Tape
	// buffer sizes: minimum first (more flush boundaries per bit written)
	bufW := 1024
	bufR := 1024
	switch t.Pick(4, 3, 1) {
	case 1:
		bufW = 1024 + 8*t.Intn(512)
	case 2:
		bufW = 65536
	}
	switch t.Pick(4, 3, 1) {
	case 1:
		bufR = 1024 + 8*t.Intn(512)
	case 2:
		bufR = 65536
	}
	res.Cfg = fmt.Sprintf("w%d/r%d", bufW, bufR)
	gen := sim.NewSplitMix(t.Seed())
	var prog []bsOp
	nops := 1 + t.Intn(60)
	totalBits := 0
	for i := 0; i < nops && totalBits < 8*4*bufW; i++ {
		var o bsOp
		switch t.Pick(2, 4, 4) {
		case 0:
			o = bsOp{Kind: "bit", N: 1, Val: gen.Next() & 1}
		case 1:
			n := 1 + t.Intn(64)
			v := gen.Next()
			if n < 64 {
				v &= (uint64(1) << uint(n)) - 1
			}
			o = bsOp{Kind: "bits", N: n, Val: v}
		default:
			var n int
			switch t.Pick(3, 3, 2, 2, 1) {
			case 0:
				n = 1 + t.Intn(600)
			case 1:
				n = 8 * (1 + t.Intn(300)) // whole bytes
			case 2:
				// land the bulk copy on the edge of the internal buffer
				n = 8*bufW - (totalBits % (8 * bufW)) + t.Range(-70, 70)
			case 3:
				n = 8*bufW + t.Range(-300, 300)
			default:
				n = 8 * bufW * (1 + t.Intn(2))
			}
			if n < 1 {
				n = 1
			}
			o = bsOp{Kind: "array", N: n, Val: gen.Next()}
		}
		prog = append(prog, o)
		totalBits += o.N
	}
	res.Render["write_buffer"] = bufW
	res.Render["read_buffer"] = bufR
	res.Render["program"] = func() []bsOp {
		if len(prog) > 40 {
			return prog[:40]
		}
		return prog
	}()
	res.Render["total_bits"] = totalBits
	res.NonTriv = totalBits > 64
	if totalBits > 8*bufW {
		res.Probes["crosses.flush.boundary"]++
	}

	// ---- write side
	var model bitVec
	sink := sim.NewSimSink(nil, "out")
	obs, err := bitstream.NewDefaultOutputBitStream(sink, uint(bufW))
	if err != nil {
		return res.fail("constructor", "output bitstream constructor: %v", err)
	}
	arrays := map[int][]byte{}
	for i, o := range prog {
		var p any
		switch o.Kind {
		case "bit":
			p = catchPanic(func() { obs.WriteBit(int(o.Val)) })
			model.push(o.Val, 1)
		case "bits":
			var ret uint
			p = catchPanic(func() { ret = obs.WriteBits(o.Val, uint(o.N)) })
			if p == nil && ret != uint(o.N) {
				return res.fail("write-return", "op %d WriteBits(%d bits) returned %d", i, o.N, ret)
			}
			model.push(o.Val, o.N)
		case "array":
			g := sim.NewSplitMix(o.Val)
			buf := make([]byte, (o.N+7)/8+int(o.Val%3))
			for j := range buf {
				buf[j] = byte(g.Next())
			}
			arrays[i] = buf
			var ret uint
			p = catchPanic(func() { ret = obs.WriteArray(buf, uint(o.N)) })
			if p == nil && ret != uint(o.N) {
				return res.fail("write-return", "op %d WriteArray(%d bits) returned %d", i, o.N, ret)
			}
			for j := 0; j < o.N; j++ {
				model.push(uint64(buf[j>>3]>>(7-uint(j&7)))&1, 1)
			}
		}
		if p != nil {
			return res.fail("write-panic", "op %d %s(%d bits) panicked on a healthy sink: %v", i, o.Kind, o.N, p)
		}
		if w := obs.Written(); w != uint64(len(model.b)) {
			return res.fail("written-counter", "after op %d (%s %d bits) Written()=%d, sum of operation sizes=%d", i, o.Kind, o.N, w, len(model.b))
		}
	}
	if err := obs.Close(); err != nil {
		return res.fail("close", "Close failed on a healthy sink: %v", err)
	}
	if w := obs.Written(); w != uint64(len(model.b)) {
		return res.fail("written-counter", "after Close Written()=%d, sum of operation sizes=%d", w, len(model.b))
	}
	img := model.image()
	if d := diffAt(sink.Data, img); d >= 0 {
		return res.fail("byte-image", "byte image differs from the big-endian concatenation of the written bits at byte %d (sink %d bytes, model %d bytes)", d, len(sink.Data), len(img))
	}
	// closed streams refuse
	if catchPanic(func() { obs.WriteBits(1, 1+uint(t.Intn(64))) }) == nil {
		return res.fail("closed-accepts", "WriteBits on a closed output bitstream did not refuse")
	}
	if catchPanic(func() { obs.WriteArray([]byte{1, 2, 3}, 17) }) == nil {
		return res.fail("closed-accepts", "WriteArray on a closed output bitstream did not refuse")
	}
	if catchPanic(func() { obs.WriteBit(1) }) == nil && obs.Written() != uint64(len(model.b)) {
		return res.fail("closed-accepts", "WriteBit on a closed output bitstream changed the counter")
	}
	if err := obs.Close(); err != nil {
		return res.fail("close", "second Close returned %v", err)
	}
	if d := diffAt(sink.Data, img); d >= 0 {
		return res.fail("byte-image", "operations on the closed stream changed the bytes at the sink")
	}

	// ---- read side: mirrored program, or a re-chunked one over the same bits
	src := sim.NewSimSource(nil, "in", sink.Data)
	ibs, err := bitstream.NewDefaultInputBitStream(src, uint(bufR))
	if err != nil {
		return res.fail("constructor", "input bitstream constructor: %v", err)
	}
	rprog := prog
	if t.Intn(3) == 0 {
		// different chunking on the read side
		rprog = nil
		left := len(model.b)
		for left > 0 {
			var o bsOp
			switch t.Pick(1, 3, 3) {
			case 0:
				o = bsOp{Kind: "bit", N: 1}
			case 1:
				o = bsOp{Kind: "bits", N: 1 + t.Intn(64)}
			default:
				o = bsOp{Kind: "array", N: 1 + t.Intn(8*bufR+600)}
			}
			if o.N > left {
				o.N = left
				if o.Kind == "bit" {
					o.N = 1
				}
				if o.Kind == "bits" && o.N > 64 {
					o.N = 64
				}
			}
			rprog = append(rprog, o)
			left -= o.N
		}
		res.Probes["read.rechunked"]++
	}
	pos := 0
	for i, o := range rprog {
		var p any
		switch o.Kind {
		case "bit":
			var got int
			p = catchPanic(func() { got = ibs.ReadBit() })
			if p == nil && uint64(got) != model.get(pos, 1) {
				return res.fail("read-value", "read op %d ReadBit at bit %d returned %d", i, pos, got)
			}
		case "bits":
			var got uint64
			p = catchPanic(func() { got = ibs.ReadBits(uint(o.N)) })
			if p == nil && got != model.get(pos, o.N) {
				return res.fail("read-value", "read op %d ReadBits(%d) at bit %d returned %x, written %x", i, o.N, pos, got, model.get(pos, o.N))
			}
		case "array":
			buf := make([]byte, (o.N+7)/8+1)
			buf[len(buf)-1] = 0xA5
			var ret uint
			p = catchPanic(func() { ret = ibs.ReadArray(buf, uint(o.N)) })
			if p == nil {
				if ret != uint(o.N) {
					return res.fail("read-return", "read op %d ReadArray(%d bits) returned %d", i, o.N, ret)
				}
				for j := 0; j < o.N; j++ {
					if (buf[j>>3]>>(7-uint(j&7)))&1 != model.b[pos+j] {
						return res.fail("read-value", "read op %d ReadArray(%d bits) at bit %d: bit %d differs from what was written", i, o.N, pos, j)
					}
				}
				if buf[len(buf)-1] != 0xA5 {
					return res.fail("read-overrun", "read op %d ReadArray(%d bits) wrote past the requested bits", i, o.N)
				}
			}
		}
		if p != nil {
			return res.fail("read-panic", "read op %d %s(%d bits) at bit %d of %d panicked: %v", i, o.Kind, o.N, pos, len(model.b), p)
		}
		pos += o.N
		if r := ibs.Read(); r != uint64(pos) {
			return res.fail("read-counter", "after read op %d (%s %d bits) Read()=%d, sum of operation sizes=%d", i, o.Kind, o.N, r, pos)
		}
	}
	if err := ibs.Close(); err != nil {
		return res.fail("close", "input Close returned %v", err)
	}
	if catchPanic(func() { ibs.ReadBits(1 + uint(t.Intn(64))) }) == nil {
		return res.fail("closed-accepts", "ReadBits on a closed input bitstream did not refuse")
	}
	if catchPanic(func() { ibs.ReadArray(make([]byte, 4), 20) }) == nil {
		return res.fail("closed-accepts", "ReadArray on a closed input bitstream did not refuse")
	}
	if err := ibs.Close(); err != nil {
		return res.fail("close", "second input Close returned %v", err)
	}
	res.Events = len(prog) + len(rprog)
	res.Sched = fmt.Sprintf("%016x", sim.Mix(uint64(len(prog)), uint64(totalBits), sim.HashString(fmt.Sprint(prog[:min(len(prog), 8)]))))
	return res
}
