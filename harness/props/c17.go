package props

import (
	"fmt"

	"github.com/flanglet/kanzi-go/v2/verifharness/sim"
)

func init() { Registry["C17"] = C17 }

// C17: stream object lifecycle behaves like the documented state machine.
// The reference machine is the few lines of bookkeeping below (state, plain
// bytes accepted, cursor); every call is compared with it as it returns.
func C17(c *Case) *Result {
	res := newResult(c)
	t := c.Tape
	cfg := GenConfig(t, GenOpts{Cheap: true, MaxJobs: 4, MaxBlock: 4096, ExactHint: true, Headerless: true, MaxChain: 2})
	cfg.DecJobs = min(cfg.DecJobs, 4)
	cfg.Hint, cfg.HintValue = "absent", 0
	if !cfg.Headerless && t.Intn(3) == 0 {
		// an advisory size hint of any value (the program below writes what it writes): the values
		// where the header's size field changes width, and arbitrary ones
		cfg.Hint = "larger"
		cfg.HintValue = []int64{1, 15, 16, 255, 256, 65535, 65536, 65537, 1<<24 - 1, 1 << 24, 1<<32 - 1, 1 << 32, 1<<32 + 1, 1 << 40, int64(1 + t.Intn(1<<20))}[t.Intn(15)]
	}
	cfg.WBuf = []int{0, 0, 1024}[t.Intn(3)]
	B := cfg.BlockSize
	res.Cfg = cfg.Sig()
	res.Render["config"] = cfg

	// ---- writer program
	type op struct {
		Kind string `json:"op"`
		Len  int    `json:"len,omitempty"`
	}
	var prog []op
	nops := t.Intn(14)
	closedAt := -1
	for i := 0; i < nops; i++ {
		switch t.Pick(6, 2, 2) {
		case 0:
			var l int
			switch t.Pick(2, 2, 2, 1, 1) {
			case 0:
				l = t.Intn(40)
			case 1:
				l = t.Intn(2*B + 1)
			case 2:
				l = B * t.Intn(1+2*cfg.Jobs)
			case 3:
				l = 0
			default:
				l = B*cfg.Jobs + t.Range(-1, 1)
			}
			prog = append(prog, op{"Write", l})
		case 1:
			prog = append(prog, op{Kind: "Close"})
			if closedAt < 0 {
				closedAt = i
			}
		default:
			prog = append(prog, op{Kind: "GetWritten"})
		}
	}
	prog = append(prog, op{Kind: "Close"}, op{Kind: "GetWritten"}, op{Kind: "Close"}, op{"Write", 1 + t.Intn(10)}, op{Kind: "GetWritten"})
	faultClose := t.Intn(4) == 0 // one transient sink failure during the first Close
	res.Render["writer_program"] = prog
	res.Render["transient_close_fault"] = faultClose
	seed := t.Seed()

	var plain []byte
	var streamBytes []byte
	var viol string
	fail := func(format string, a ...any) {
		if viol == "" {
			viol = fmt.Sprintf(format, a...)
		}
	}
	inClose := false
	faultUsed := false
	hooks := sim.Hooks{OnIO: func(s *sim.Sched, ti *sim.TaskInfo, obj, op string, k, n int) sim.IOAction {
		if obj == "out" && faultClose && inClose && !faultUsed {
			faultUsed = true
			s.Fault("sink.transient.during.close")
			return sim.IOAction{Kind: sim.IOErr, Err: &sim.InjectedError{What: "transient sink failure during Close"}}
		}
		return sim.IOAction{}
	}}

	s := sim.Run(t, sim.Options{Hooks: hooks, KeepTrace: c.KeepTrace}, func(env *sim.Env) {
		sink := sim.NewSimSink(env.S, "out")
		w, err := OpenWriter(cfg, sink)
		if err != nil {
			fail("constructor rejected a legal configuration: %v", err)
			return
		}
		state := "open" // open | close-failed | closed
		lastWritten := uint64(0)
		gen := sim.NewSplitMix(seed)
		for i, o := range prog {
			switch o.Kind {
			case "Write":
				if state == "close-failed" {
					continue // unspecified state: not exercised
				}
				p := make([]byte, o.Len)
				for j := range p {
					p[j] = byte(gen.Next() >> 7 % 7)
				}
				sinkBefore, callsBefore := len(sink.Data), sink.Writes+sink.Closes
				n, err := w.Write(p)
				if state == "open" {
					if err != nil || n != len(p) {
						fail("op %d Write(%d) on an open writer returned (%d, %v)", i, len(p), n, err)
						return
					}
					plain = append(plain, p...)
				} else {
					if err == nil {
						fail("op %d Write(%d) after Close returned (%d, nil): must fail", i, len(p), n)
						return
					}
					if n != 0 || len(sink.Data) != sinkBefore || sink.Writes+sink.Closes != callsBefore {
						fail("op %d Write after Close had side effects (n=%d, sink grew by %d bytes, %d sink calls)", i, n, len(sink.Data)-sinkBefore, sink.Writes+sink.Closes-callsBefore)
						return
					}
					res.Probes["write.after.close.refused"]++
				}
			case "Close":
				callsBefore := sink.Writes + sink.Closes
				env.Sync(func() { inClose = true })
				err := w.Close()
				env.Sync(func() { inClose = false })
				switch state {
				case "open", "close-failed":
					if err != nil {
						var injected bool
						env.Sync(func() { injected = faultUsed })
						if !injected {
							fail("op %d Close failed on a healthy sink: %v", i, err)
							return
						}
						if state == "close-failed" {
							// the injected failure hit a block task (not the final flush): the stream
							// cannot be completed and Close keeps refusing - C08's business, not judged here
							res.Probes["close.keeps.failing.after.task.failure"]++
							state = "broken"
							return
						}
						state = "close-failed"
						res.Probes["close.failed.then.retried"]++
					} else {
						state = "closed"
						streamBytes = append([]byte(nil), sink.Data...)
					}
				case "closed":
					if err != nil {
						fail("op %d repeated Close returned %v: Close must be idempotent", i, err)
						return
					}
					if sink.Writes+sink.Closes != callsBefore {
						fail("op %d repeated Close touched the sink again", i)
						return
					}
					res.Probes["close.repeated"]++
				}
			case "GetWritten":
				g := w.GetWritten()
				if g < lastWritten {
					fail("op %d GetWritten went backwards: %d after %d", i, g, lastWritten)
					return
				}
				lastWritten = g
				if state == "closed" && g != uint64(len(sink.Data)) {
					fail("op %d after a successful Close GetWritten()=%d but the sink received %d bytes", i, g, len(sink.Data))
					return
				}
			}
		}
		if state != "closed" {
			fail("writer not closed at the end of the program (state %s)", state)
		}
	})
	broken := res.Probes["close.keeps.failing.after.task.failure"] > 0
	res.absorb(s)
	if res.Verdict == "fail" {
		return res
	}
	if viol != "" {
		return res.fail("writer-lifecycle", "%s", viol)
	}
	if broken {
		res.NonTriv = true
		return res
	}
	if len(plain) == 0 {
		res.Probes["closed.without.data"]++
	}

	// the produced stream must decode to exactly what Write accepted
	rprog := []op{}
	nr := t.Intn(12)
	for i := 0; i < nr; i++ {
		switch t.Pick(6, 1, 2) {
		case 0:
			var l int
			switch t.Pick(2, 2, 1, 1) {
			case 0:
				l = t.Intn(40)
			case 1:
				l = t.Intn(2*B + 1)
			case 2:
				l = 0
			default:
				l = B * (1 + t.Intn(3))
			}
			rprog = append(rprog, op{"Read", l})
		case 1:
			rprog = append(rprog, op{Kind: "Close"})
		default:
			rprog = append(rprog, op{Kind: "GetRead"})
		}
	}
	drain := t.Intn(3) != 0
	if drain {
		rprog = append(rprog, op{Kind: "Drain"})
	}
	rprog = append(rprog, op{Kind: "GetRead"}, op{Kind: "Close"}, op{Kind: "Close"}, op{"Read", 1 + t.Intn(100)}, op{Kind: "GetRead"})
	res.Render["reader_program"] = rprog
	// the source: whole reads, or pieces (pipes); the input bitstream buffer: default or small, so
	// that the counters are also observed after the bitstream has refilled its buffer
	cfg.RBuf = GenBuf(t)
	shortMode := t.Intn(3)
	shortConst := 1 + t.Intn(64)
	res.Render["source"] = map[string]int{"rbuf": cfg.RBuf, "short_mode": shortMode, "short_const": shortConst}
	rhooks := sim.Hooks{OnIO: func(s *sim.Sched, ti *sim.TaskInfo, obj, op string, k, n int) sim.IOAction {
		if op != "read" || n <= 1 || shortMode == 0 {
			return sim.IOAction{}
		}
		l := shortConst
		if shortMode == 2 {
			l = 1 + s.Tape.Intn(n)
		}
		if l < n {
			s.Fault("src.short")
		}
		return sim.IOAction{N: l}
	}}

	viol = ""
	// (byte-wise source reads cost one event per byte: the step cap grows with the stream)
	s = sim.Run(t, sim.Options{Hooks: rhooks, KeepTrace: c.KeepTrace, MaxEvents: 200000 + 16*len(streamBytes)}, func(env *sim.Env) {
		src := sim.NewSimSource(env.S, "in", streamBytes)
		rd, err := NewReader(cfg.readerSpec(), src)
		if err != nil {
			fail("reader constructor failed: %v", err)
			return
		}
		state := "open"
		cursor := 0
		eof := false
		lastRead := uint64(0)
		readOnce := func(i int, l int) bool {
			buf := make([]byte, l)
			readsBefore := src.Reads
			n, err := rd.Read(buf)
			if state == "closed" {
				if err == nil || n != 0 {
					fail("op %d Read after Close returned (%d, %v): must fail without data", i, n, err)
					return false
				}
				if src.Reads != readsBefore {
					fail("op %d Read after Close touched the source", i)
					return false
				}
				res.Probes["read.after.close.refused"]++
				return false
			}
			if n < 0 || n > l {
				fail("op %d Read(%d) returned n=%d", i, l, n)
				return false
			}
			if cursor+n > len(plain) || diffAt(buf[:n], plain[cursor:cursor+n]) >= 0 {
				fail("op %d Read(%d) returned %d bytes that are not the next bytes of the data (cursor %d of %d)", i, l, n, cursor, len(plain))
				return false
			}
			cursor += n
			if err != nil {
				if !isEOF(err) {
					fail("op %d Read(%d) failed on a valid stream: %v", i, l, err)
					return false
				}
				if cursor != len(plain) {
					fail("op %d end of stream after %d of %d bytes", i, cursor, len(plain))
					return false
				}
				eof = true
				return false
			}
			if eof && l > 0 && n > 0 {
				fail("op %d data returned after end of stream", i)
				return false
			}
			return true
		}
		for i, o := range rprog {
			if viol != "" {
				return
			}
			switch o.Kind {
			case "Read":
				readOnce(i, o.Len)
			case "Drain":
				zero := 0
				for k := 0; k < 100000 && state == "open" && !eof; k++ {
					before := cursor
					if !readOnce(i, 1+((k*977)%(2*B))) {
						break
					}
					if cursor == before {
						zero++
						if zero > 100 {
							fail("op %d Read makes no progress before the end of the stream (cursor %d of %d)", i, cursor, len(plain))
							return
						}
					} else {
						zero = 0
					}
				}
			case "Close":
				err := rd.Close()
				if err != nil {
					fail("op %d Reader.Close returned %v", i, err)
					return
				}
				if state == "closed" {
					res.Probes["reader.close.repeated"]++
				}
				state = "closed"
			case "GetRead":
				g := rd.GetRead()
				if g < lastRead {
					fail("op %d GetRead went backwards: %d after %d", i, g, lastRead)
					return
				}
				lastRead = g
			}
		}
		if drain && state == "closed" && !eof && cursor < len(plain) {
			// closed before draining: fine
			_ = cursor
		}
	})
	res.absorb(s)
	res.NonTriv = true
	if res.Verdict == "fail" {
		return res
	}
	if viol != "" {
		return res.fail("reader-lifecycle", "%s", viol)
	}
	return res
}
