package props

import (
	"fmt"
	"sync"

	"github.com/flanglet/kanzi-go/v2/verifharness/model"
	"github.com/flanglet/kanzi-go/v2/verifharness/sim"
)

func init() { Registry["C18"] = C18 }

// codecs with package-level tables (static dictionary, squash/stretch, state tables)
var sharedTableTransforms = []string{"TEXT", "TEXT+UTF", "BWT", "ROLZX", "TEXT+BWT+RANK+ZRLT", "LZ", "RLT+TEXT", "UTF", "MM", "EXE"}
var sharedTableEntropy = []string{"HUFFMAN", "CM", "FPAQ", "ANS0", "ANS1", "RANGE", "TPAQ", "TPAQX"}

type c18inst struct {
	cfg    Config
	rec    DataRecipe
	data   []byte
	pieces []int
	sizes  []int
	alone  []byte // compressed bytes when run alone
	got    []byte
	wo     WOutcome
	ro     ROutcome
}

// C18: independent streams do not interfere; internals are race-free. The
// worker binary of this property is built with -race; the simulator's baton is
// invisible to the detector, so the happens-before relation it judges is the
// library's own.
func C18(c *Case) *Result {
	res := newResult(c)
	t := c.Tape
	maxK := 4
	if c.Thorough() {
		maxK = 8
	}
	K := 2 + t.Intn(maxK-1)
	bigBWT := c.Thorough() && t.Intn(40) == 0
	// one instance with blocks above the 256 KiB minimum buffer and a chain whose worst-case output
	// exceeds the per-task buffers (the encoder enlarges them on the fly, next to its neighbours')
	growth := !bigBWT && t.Intn(25) == 0
	insts := make([]*c18inst, K)
	heavy := 0
	for i := range insts {
		in := &c18inst{}
		o := GenOpts{Cheap: true, MaxJobs: 8, MaxBlock: 4096, ExactHint: true, MaxChain: 3, SkipOpt: true}
		if c.Thorough() {
			o.MaxJobs = 16
		}
		in.cfg = GenConfig(t, o)
		if t.Intn(2) == 0 {
			in.cfg.Transform = sharedTableTransforms[t.Intn(len(sharedTableTransforms))]
		}
		if t.Intn(2) == 0 {
			in.cfg.Entropy = sharedTableEntropy[t.Intn(len(sharedTableEntropy))]
		}
		maxBlocks := min(in.cfg.Jobs+1, 6) // race builds are slow: several small pipelines beat a few big ones
		if expensiveEntropy(in.cfg) {
			heavy++
			if heavy > 1 {
				in.cfg.Entropy = "CM"
			} else {
				in.cfg.Jobs, in.cfg.DecJobs = min(in.cfg.Jobs, 2), min(in.cfg.DecJobs, 2)
				in.cfg.BlockSize = min(in.cfg.BlockSize, 4096)
				maxBlocks = 2
			}
		}
		in.rec = GenDataRecipe(t, in.cfg.BlockSize, maxBlocks)
		if t.Intn(2) == 0 {
			in.rec.Shape = []string{"text", "utf8", "mixed", "exe"}[t.Intn(4)]
		}
		if bigBWT && i == 0 {
			in.cfg = Config{Transform: "BWT", Entropy: "ANS0", BlockSize: 4*1024*1024 + 16*t.Intn(1024), Jobs: 2 + t.Intn(6), DecJobs: 2 + t.Intn(6), Hint: "absent", Checksum: 32}
			in.rec = DataRecipe{Shape: "text", Len: in.cfg.BlockSize + t.Intn(100000), Seed: t.Seed()}
			res.Probes["big.bwt.instance"]++
		}
		if growth && i == 0 {
			bs := 256*1024 + 16*t.Intn(8*1024)
			in.cfg = Config{Transform: []string{"EXE+LZX", "EXE+LZ", "TEXT+UTF+EXE+PACK+MM+ROLZ", "EXE+RLT+TEXT+UTF+DNA"}[t.Intn(4)], Entropy: []string{"NONE", "HUFFMAN"}[t.Intn(2)],
				BlockSize: bs, Jobs: 3 + t.Intn(2), DecJobs: 1 + t.Intn(4), Hint: "absent", Checksum: 32}
			in.rec = DataRecipe{Shape: []string{"exe", "mixed", "text"}[t.Intn(3)], Len: 2*bs + t.Intn(2*bs), Seed: t.Seed()}
			res.Probes["buffer.growth.instance"]++
		}
		in.data = in.rec.Bytes()
		hintValue(&in.cfg, len(in.data), t)
		in.pieces = GenPartition(t, len(in.data), in.cfg.BlockSize)
		in.sizes = readSizes(t, in.cfg.BlockSize)
		insts[i] = in
	}
	var cfgs []string
	for _, in := range insts {
		cfgs = append(cfgs, in.cfg.Sig()+"/"+in.rec.Shape)
	}
	res.Cfg = fmt.Sprintf("K%d/%v", K, cfgs)
	res.Render["instances"] = cfgs

	mon := model.NewHandoffMonitor()
	var hooks sim.Hooks
	monitorHooks(mon, &hooks)
	var wg sync.WaitGroup // real synchronisation for the harness's own result slots
	s := sim.Run(t, sim.Options{Hooks: hooks, KeepTrace: c.KeepTrace, MaxEvents: 2000000}, func(env *sim.Env) {
		for i, in := range insts {
			i, in := i, in
			wg.Add(1)
			env.Go(func() {
				defer wg.Done()
				sink := sim.NewSimSink(env.S, fmt.Sprintf("out%d", i))
				in.wo = Compress(in.cfg, in.data, in.pieces, sink)
				in.got = sink.Data
				if in.wo.Err() != nil {
					return
				}
				src := sim.NewSimSource(env.S, fmt.Sprintf("in%d", i), in.got)
				in.ro = Decompress(in.cfg.readerSpec(), src, in.sizes, 0, len(in.data)+2*in.cfg.BlockSize+64)
			})
		}
		env.Join()
		wg.Wait()
	})
	res.absorb(s)
	res.NonTriv = true
	res.Probes["instances"] += K
	// each instance alone (no simulation), AFTER the concurrent run: state that the library
	// initialises on first use must meet concurrent first users, not a sequential warm-up
	for i, in := range insts {
		alone, err := plainCompress(in.cfg, in.data)
		if err != nil {
			res.Verdict = "skip"
			res.Detail = fmt.Sprintf("instance %d does not compress alone (C01's business): %v", i, err)
			return res
		}
		in.alone = append([]byte(nil), alone...)
	}
	if res.Verdict == "fail" {
		return res
	}
	for i, in := range insts {
		if in.wo.Err() != nil {
			return res.fail("interference", "instance %d (%s) fails when %d streams run concurrently (%s: %v) but succeeds alone", i, in.cfg.CodecSig(), K, in.wo.FirstFail, in.wo.Err())
		}
		if d := diffAt(in.got, in.alone); d >= 0 {
			return res.fail("interference", "instance %d (%s): compressed bytes differ from the same instance run alone at byte %d when %d streams run concurrently", i, in.cfg.CodecSig(), d, K)
		}
		if in.ro.NewErr != nil || in.ro.Panic != nil || !isEOF(in.ro.Err) {
			return res.fail("interference", "instance %d (%s): decompression fails when %d streams run concurrently: %v %v %v", i, in.cfg.CodecSig(), K, in.ro.NewErr, in.ro.Panic, in.ro.Err)
		}
		if d := diffAt(in.ro.Data, in.data); d >= 0 {
			return res.fail("interference", "instance %d (%s): decoded bytes differ from the original at byte %d when %d streams run concurrently", i, in.cfg.CodecSig(), d, K)
		}
	}
	return res
}
