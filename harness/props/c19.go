package props

import (
	"bytes"
	"fmt"
	"io"
	"os"
	"os/exec"
	"path/filepath"
	"sort"
	"strings"
	"syscall"
	"time"

	"github.com/flanglet/kanzi-go/v2/verifharness/sim"
)

func init() { Registry["C19"] = C19 }

type treeFile struct {
	Rel  string
	Data []byte
}

func scratchRoot() string {
	if d := os.Getenv("KSIM_SCRATCH"); d != "" {
		return d
	}
	return os.TempDir()
}

func writeTree(root string, files []treeFile) error {
	for _, f := range files {
		p := filepath.Join(root, f.Rel)
		if err := os.MkdirAll(filepath.Dir(p), 0o755); err != nil {
			return err
		}
		if err := os.WriteFile(p, f.Data, 0o644); err != nil {
			return err
		}
	}
	return nil
}

// snapshot returns path -> content of every regular file under root.
func snapshot(root string) map[string][]byte {
	out := map[string][]byte{}
	filepath.Walk(root, func(p string, info os.FileInfo, err error) error {
		if err != nil || info.IsDir() {
			return nil
		}
		rel, _ := filepath.Rel(root, p)
		b, _ := os.ReadFile(p)
		out[rel] = b
		return nil
	})
	return out
}

type cliRun struct {
	Args   []string
	Env    []string
	RC     int
	Killed bool
	Out    string
	Stdout []byte // raw standard output (stream data in stdout mode)
	// TimedOut: the harness killed the run after 15 minutes of wall time
	TimedOut bool
	Trace    []string
}

func copyEnv(m map[string]string) map[string]string {
	c := map[string]string{}
	for k, v := range m {
		c[k] = v
	}
	return c
}

// raceHead returns the two access sites of a race report.
func raceHead(out string) string {
	var keep []string
	lines := strings.Split(out, "\n")
	for i, l := range lines {
		if (strings.Contains(l, " by goroutine ") || strings.Contains(l, " by main goroutine")) && i+1 < len(lines) {
			keep = append(keep, strings.TrimSpace(l)+" "+strings.TrimSpace(lines[i+1]))
		}
	}
	if len(keep) > 2 {
		keep = keep[:2]
	}
	return strings.Join(keep, " / ")
}

func runCLI(cli string, dir string, args []string, env map[string]string, stdin []byte) cliRun {
	cmd := exec.Command(cli, args...)
	cmd.Dir = dir
	cmd.Env = append(os.Environ(), "GOMAXPROCS=2")
	var envl []string
	tracePath := ""
	for k, v := range env {
		cmd.Env = append(cmd.Env, k+"="+v)
		envl = append(envl, k+"="+v)
		if k == "KSIM_TRACE" {
			tracePath = v
		}
	}
	sort.Strings(envl)
	var out, raw bytes.Buffer
	cmd.Stdout = io.MultiWriter(&out, &raw)
	cmd.Stderr = &out
	if stdin != nil {
		cmd.Stdin = bytes.NewReader(stdin)
	}
	done := make(chan error, 1)
	timedOut := false
	cmd.Start()
	go func() { done <- cmd.Wait() }()
	var err error
	select {
	case err = <-done:
	case <-time.After(900 * time.Second):
		cmd.Process.Kill()
		err = <-done
		out.WriteString("\n[harness: killed after 900 s wall]")
		timedOut = true
	}
	r := cliRun{Args: args, Env: envl, Out: out.String(), Stdout: raw.Bytes(), TimedOut: timedOut}
	if err != nil {
		if ee, ok := err.(*exec.ExitError); ok {
			if ws, ok := ee.Sys().(syscall.WaitStatus); ok && ws.Signaled() {
				r.Killed = true
				r.RC = -int(ws.Signal())
			} else {
				r.RC = ee.ExitCode()
			}
		} else {
			r.RC = -999
		}
	}
	if tracePath != "" {
		if b, err := os.ReadFile(tracePath); err == nil {
			r.Trace = strings.Split(strings.TrimSpace(string(b)), "\n")
		}
	}
	if len(r.Out) > 1500 {
		r.Out = r.Out[:700] + "\n...\n" + r.Out[len(r.Out)-700:]
	}
	return r
}

// decodesTo reports whether the .knz bytes decode (library Reader, no simulation, in this process) to want.
func decodesTo(knz []byte, want []byte) bool {
	ro := plainDecompress(ReaderSpec{Jobs: 1}, knz)
	return ro.NewErr == nil && ro.Panic == nil && isEOF(ro.Err) && bytes.Equal(ro.Data, want)
}

// C19: command-line tool: tree round trip and file safety, including kill points.
func C19(c *Case) *Result {
	res := newResult(c)
	t := c.Tape
	cli := os.Getenv("KSIM_CLI")
	if cli == "" {
		return res.fail("harness-no-cli", "KSIM_CLI is not set: the check must build the CLI first")
	}
	root, err := os.MkdirTemp(scratchRoot(), "ksim-c19-")
	if err != nil {
		return res.fail("harness-scratch", "%v", err)
	}
	defer os.RemoveAll(root)

	// ---- tree
	nfiles := t.Pick(2, 3, 3, 2)
	switch nfiles {
	case 0:
		nfiles = 1
	case 1:
		nfiles = 2 + t.Intn(2)
	case 2:
		nfiles = 4 + t.Intn(4)
	default:
		nfiles = 8 + t.Intn(5)
	}
	var files []treeFile
	dirs := []string{"", "sub", "sub/deep", "other"}
	// special layouts at a fixed rate: a lone file in a nested sub-directory, the same base name in
	// two directories, names that already carry the tool's extension, dot-files
	special := t.Pick(5, 1, 1, 1)
	if special == 1 {
		nfiles = 1
		dirs = []string{"sub/deep", "sub", "other/x/y"}
	}
	for i := 0; i < nfiles; i++ {
		var n int
		switch t.Pick(2, 4, 2, 1) {
		case 0:
			n = 0
		case 1:
			n = t.Intn(4000)
		case 2:
			n = t.Intn(40000)
		default:
			n = 1 + t.Intn(200000)
		}
		shape := ShapeNames[t.Intn(len(ShapeNames))]
		d := dirs[t.Intn(len(dirs))]
		if nfiles == 1 && t.Intn(3) == 0 {
			d = ""
		}
		name := fmt.Sprintf("f%02d.%s", i, []string{"txt", "bin", "dat", "c"}[t.Intn(4)])
		switch {
		case special == 2 && i < 4:
			name = "same.txt" // the same base name in different directories
			d = []string{"", "sub", "sub/deep", "other"}[i]
		case special == 3 && i%3 == 0:
			name = []string{".hidden", "archive.knz", "data.knz.txt", "UPPER.TXT"}[t.Intn(4)] + fmt.Sprint(i)
		}
		files = append(files, treeFile{Rel: filepath.Join(d, name), Data: GenData(shape, n, t.Seed())})
	}
	res.Probes[fmt.Sprintf("layout.special.%d", special)]++
	in := filepath.Join(root, "in")
	if err := writeTree(in, files); err != nil {
		return res.fail("harness-scratch", "%v", err)
	}
	orig := snapshot(in)

	// ---- options
	var copts []string
	desc := ""
	if t.Intn(2) == 0 {
		lvl := t.Intn(10)
		if lvl >= 8 && t.Intn(4) != 0 {
			lvl = t.Intn(8) // TPAQ levels are slow: keep them rare
		}
		copts = append(copts, "-l", fmt.Sprint(lvl))
		desc = fmt.Sprintf("l%d", lvl)
	} else {
		cfg := GenConfig(t, GenOpts{Cheap: t.Intn(4) != 0, MaxChain: 4})
		copts = append(copts, "-t", cfg.Transform, "-e", cfg.Entropy)
		desc = cfg.CodecSig()
	}
	if t.Intn(2) == 0 {
		bs := []string{"1k", "4k", "64k", "1m", "2048", "16384"}[t.Intn(6)]
		copts = append(copts, "-b", bs)
		desc += "/b" + bs
	}
	jobs := 1 + t.Intn(4)
	copts = append(copts, "-j", fmt.Sprint(jobs))
	switch t.Intn(3) {
	case 1:
		copts = append(copts, "-x")
		desc += "/x32"
	case 2:
		copts = append(copts, "-x64")
		desc += "/x64"
	}
	desc += fmt.Sprintf("/j%d/n%d", jobs, nfiles)
	fam := t.Pick(6, 2, 3, 2)
	if c.Neutralise == "nokill" && fam == 2 {
		fam = 0
	}
	res.Cfg = fmt.Sprintf("fam%d/%s", fam, desc)
	res.Render["family"] = []string{"round-trip", "safety", "kill-points", "sink-failure"}[fam]
	res.Render["options"] = copts
	res.Render["files"] = func() []string {
		var l []string
		for _, f := range files {
			l = append(l, fmt.Sprintf("%s (%d bytes)", f.Rel, len(f.Data)))
		}
		return l
	}()
	simSeed := fmt.Sprint(1 + t.Seed())
	trace := filepath.Join(root, "trace.txt")
	var runs []cliRun
	defer func() {
		if res.Verdict == "fail" {
			var rr []map[string]any
			for _, r := range runs {
				rr = append(rr, map[string]any{"args": r.Args, "env": r.Env, "rc": r.RC, "killed": r.Killed, "output": r.Out, "events": len(r.Trace)})
			}
			res.Render["cli_runs"] = rr
		}
	}()
	// a third of the scheduled fault-free runs use the race-built tool: state shared between the
	// file tasks of one invocation (or between their streams) outside any synchronisation is
	// reported by the detector whatever the schedule, the simulator's baton being invisible to it
	raceCLI := os.Getenv("KSIM_CLI_RACE")
	useRace := false
	exec1 := func(args []string, env map[string]string, stdin []byte) cliRun {
		sim.Heartbeat()
		bin := cli
		if useRace && raceCLI != "" && env["KSIM_SEED"] != "" && env["KSIM_KILL"] == "" {
			bin = raceCLI
			env = copyEnv(env)
			env["GORACE"] = "halt_on_error=1 exitcode=66"
			res.Probes["cli.runs.race.build"]++
		}
		r := runCLI(bin, root, args, env, stdin)
		runs = append(runs, r)
		if bin == raceCLI && (r.RC == 66 || strings.Contains(r.Out, "WARNING: DATA RACE")) {
			res.fail("cli-data-race", "the race detector reports unsynchronised sharing inside the tool (%v): %s", args, raceHead(r.Out))
		}
		if r.TimedOut {
			// not a crash of the tool: the run did not end within 15 minutes (a hang if it recurs on replay)
			res.fail("cli-timeout", "the tool did not terminate within 900 s: %v", args)
		}
		res.Events += len(r.Trace)
		if len(r.Trace) > 0 {
			h := sim.HashString(res.Sched)
			for _, l := range r.Trace {
				// signature of the (task, point) sequence, without the sequence numbers
				if i := strings.IndexByte(l, ' '); i >= 0 {
					h = sim.Mix(h, sim.HashString(l[i:]))
				}
			}
			res.Sched = fmt.Sprintf("%016x", h)
		}
		res.Probes["cli.runs"]++
		return r
	}
	sameTree := func(a, b map[string][]byte) string {
		for k, v := range a {
			w, ok := b[k]
			if !ok {
				return "missing " + k
			}
			if !bytes.Equal(v, w) {
				return "content differs: " + k
			}
		}
		for k := range b {
			if _, ok := a[k]; !ok {
				return "unexpected " + k
			}
		}
		return ""
	}

	switch fam {
	case 0:
		// ---- fault-free tree round trip; scheduler active in half of the cases
		env := map[string]string{}
		if t.Intn(2) == 0 {
			env["KSIM_SEED"] = simSeed
			env["KSIM_TRACE"] = trace
			if t.Intn(3) == 0 {
				env["KSIM_SHORT_IN"] = fmt.Sprint(1 + t.Intn(5000))
			}
		}
		useRace = env["KSIM_SEED"] != "" && t.Intn(3) == 0
		mode := t.Pick(3, 2, 1, 2) // dir in place, dir to out dir, single file, stdin/stdout
		if special != 0 && t.Intn(2) == 0 {
			mode = 1
		}
		if nfiles > 1 && mode == 2 {
			mode = 0
		}
		rm := t.Intn(3) == 0
		outDir := filepath.Join(root, "out")
		backDir := filepath.Join(root, "back")
		os.MkdirAll(outDir, 0o755)
		os.MkdirAll(backDir, 0o755)
		switch mode {
		case 0, 2:
			target := "in"
			if mode == 2 {
				target = filepath.Join("in", files[0].Rel)
			}
			args := append([]string{"-c", "-i", target}, copts...)
			if rm {
				args = append(args, "--rm")
			}
			r := exec1(args, env, nil)
			if r.RC != 0 {
				return res.fail("cli-compress-failed", "compression exits with status %d: %s", r.RC, firstLineOf(r.Out))
			}
			after := snapshot(in)
			for rel, data := range orig {
				if mode == 2 && rel != files[0].Rel {
					continue
				}
				knz, ok := after[rel+".knz"]
				if !ok {
					return res.fail("cli-output-missing", "no output for %s", rel)
				}
				if _, still := after[rel]; still == rm {
					return res.fail("cli-remove-option", "--rm=%v but source %s present=%v after a successful run", rm, rel, still)
				}
				if !rm && !bytes.Equal(after[rel], data) {
					return res.fail("cli-input-modified", "input %s was modified by compression", rel)
				}
				if !decodesTo(knz, data) {
					return res.fail("cli-output-wrong", "output of %s does not decode to it", rel)
				}
			}
			// decompress in place (sources removed => restored names are free; else force overwrite)
			dargs := []string{"-d", "-i", target, "-j", fmt.Sprint(1 + t.Intn(4))}
			if mode == 2 {
				dargs[2] = target + ".knz"
			}
			if !rm {
				dargs = append(dargs, "-f")
			}
			if t.Intn(2) == 0 {
				dargs = append(dargs, "--rm")
			}
			if mode == 0 && !rm {
				// a directory that contains both x and x.knz: decompress the .knz files only by removing the originals first
				for rel := range orig {
					os.Remove(filepath.Join(in, rel))
				}
			}
			r = exec1(dargs, env, nil)
			if r.RC != 0 {
				return res.fail("cli-decompress-failed", "decompression exits with status %d: %s", r.RC, firstLineOf(r.Out))
			}
			back := snapshot(in)
			for rel, data := range orig {
				if mode == 2 && rel != files[0].Rel {
					continue
				}
				got, ok := back[rel]
				if !ok {
					// the tool names the output of x.knz "x.bak" when it cannot strip the extension: accept x.knz.bak? no: x.knz -> x
					return res.fail("cli-restore-missing", "restored file %s is missing after decompression", rel)
				}
				if !bytes.Equal(got, data) {
					return res.fail("cli-restore-differs", "restored file %s differs from the original", rel)
				}
			}
		case 1:
			args := append([]string{"-c", "-i", "in", "-o", "out"}, copts...)
			r := exec1(args, env, nil)
			if r.RC != 0 {
				return res.fail("cli-compress-failed", "compression to an output directory exits with status %d: %s", r.RC, firstLineOf(r.Out))
			}
			if d := sameTree(orig, snapshot(in)); d != "" {
				return res.fail("cli-input-modified", "input tree changed by compression to another directory: %s", d)
			}
			r = exec1([]string{"-d", "-i", "out", "-o", "back", "-j", fmt.Sprint(1 + t.Intn(4))}, env, nil)
			if r.RC != 0 {
				return res.fail("cli-decompress-failed", "decompression exits with status %d: %s", r.RC, firstLineOf(r.Out))
			}
			if d := sameTree(orig, snapshot(backDir)); d != "" {
				return res.fail("cli-restore-differs", "restored tree differs from the original: %s", d)
			}
		case 3:
			data := files[0].Data
			if t.Intn(3) != 0 {
				// stdin to a NAMED file and back, the outputs possibly existing already (longer than
				// what is written, so that anything left of the old content shows): without -f the
				// run must refuse and leave the file alone, with -f the file holds the new bytes only
				knz := filepath.Join(root, "s.knz")
				backFile := filepath.Join(root, "s.out")
				junk := bytes.Repeat([]byte("old content "), 1+(len(data)+4096)/12)
				pre := t.Pick(1, 2, 1) // 0: no existing output, 1: existing + force, 2: existing, no force
				step := func(what string, args []string, in []byte, outPath string, check func([]byte) bool) *Result {
					a := append([]string{}, args...)
					if pre != 0 {
						os.WriteFile(outPath, junk, 0o644)
					}
					if pre == 1 {
						a = append(a, "-f")
					}
					r := runCLI(cli, root, a, env, in)
					runs = append(runs, r)
					got, _ := os.ReadFile(outPath)
					if pre == 2 {
						if r.RC == 0 {
							return res.fail("cli-overwrite-status", "%s from stdin onto an existing file without force exits with status 0", what)
						}
						if !bytes.Equal(got, junk) {
							return res.fail("cli-overwrote-existing", "%s from stdin without force changed the existing output file", what)
						}
						res.Probes["stdin.named.refused"]++
						return nil
					}
					if r.RC != 0 {
						return res.fail("cli-"+what+"-failed", "%s from stdin to a named file exits with status %d: %s", what, r.RC, firstLineOf(r.Out))
					}
					if !check(got) {
						return res.fail("cli-output-wrong", "%s from stdin to a named file (existing before: %v): the file holds %d bytes that are not exactly the expected output", what, pre == 1, len(got))
					}
					return nil
				}
				if r := step("compress", append([]string{"-c", "-i", "stdin", "-o", knz}, copts...), data, knz, func(got []byte) bool {
					if !decodesTo(got, data) {
						return false
					}
					// nothing may follow the stream: the fault-free stream of the same options to stdout has the same length
					ref := runCLI(cli, root, append([]string{"-c", "-i", "stdin", "-o", "stdout"}, copts...), env, data)
					return ref.RC == 0 && len(ref.Stdout) == len(got)
				}); r != nil {
					return r
				}
				if pre != 2 {
					stream, _ := os.ReadFile(knz)
					if r := step("decompress", []string{"-d", "-i", "stdin", "-o", backFile, "-j", fmt.Sprint(1 + t.Intn(4))}, stream, backFile, func(got []byte) bool { return bytes.Equal(got, data) }); r != nil {
						return r
					}
				}
				res.Probes["stdin.named.file"]++
				res.NonTriv = true
				return res
			}
			args := append([]string{"-c", "-i", "stdin", "-o", "stdout"}, copts...)
			cmd := runCLI(cli, root, args, env, data)
			runs = append(runs, cmd)
			// in stdout mode the standard output carries the stream and nothing else
			if cmd.RC != 0 {
				return res.fail("cli-compress-failed", "stdin/stdout compression exits with status %d", cmd.RC)
			}
			if !decodesTo(cmd.Stdout, data) {
				return res.fail("cli-output-wrong", "the stream written to stdout (%d bytes) does not decode to the %d bytes given on stdin", len(cmd.Stdout), len(data))
			}
			back := runCLI(cli, root, []string{"-d", "-i", "stdin", "-o", "stdout", "-j", fmt.Sprint(1 + t.Intn(4))}, env, cmd.Stdout)
			runs = append(runs, back)
			if back.RC != 0 {
				return res.fail("cli-decompress-failed", "stdin/stdout decompression exits with status %d", back.RC)
			}
			if !bytes.Equal(back.Stdout, data) {
				return res.fail("cli-restore-differs", "stdin/stdout round trip returns %d bytes that differ from the %d original bytes", len(back.Stdout), len(data))
			}
			res.Probes["stdin.stdout"]++
		}
		res.NonTriv = true
		return res

	case 1:
		// ---- safety: existing output without force; output == input
		f0 := files[0]
		src := filepath.Join("in", f0.Rel)
		decoy := []byte("pre-existing output, must not be touched")
		os.WriteFile(filepath.Join(root, src+".knz"), decoy, 0o644)
		r := exec1(append([]string{"-c", "-i", src}, copts...), nil, nil)
		got, _ := os.ReadFile(filepath.Join(root, src+".knz"))
		if !bytes.Equal(got, decoy) {
			return res.fail("cli-overwrote-existing", "an existing output file was overwritten without the force option (exit status %d)", r.RC)
		}
		if r.RC == 0 {
			return res.fail("cli-overwrite-status", "compression onto an existing output without force exits with status 0")
		}
		cur, _ := os.ReadFile(filepath.Join(root, src))
		if !bytes.Equal(cur, f0.Data) {
			return res.fail("cli-input-modified", "input modified by a refused compression")
		}
		// same file as input and output, forced
		r = exec1(append([]string{"-c", "-i", src, "-o", src, "-f"}, copts...), nil, nil)
		cur, _ = os.ReadFile(filepath.Join(root, src))
		if !bytes.Equal(cur, f0.Data) {
			return res.fail("cli-wrote-own-input", "the tool wrote to its own input file (-o equals -i with -f), exit status %d", r.RC)
		}
		// through a symlink to the input
		link := filepath.Join(root, "link.knz")
		os.Symlink(filepath.Join(root, src), link)
		r = exec1(append([]string{"-c", "-i", src, "-o", "link.knz", "-f"}, copts...), nil, nil)
		cur, _ = os.ReadFile(filepath.Join(root, src))
		if !bytes.Equal(cur, f0.Data) {
			return res.fail("cli-wrote-own-input", "the tool wrote to its own input through a symbolic link, exit status %d", r.RC)
		}
		// decompression must not overwrite an existing file without force either
		os.Remove(filepath.Join(root, src+".knz"))
		r = exec1(append([]string{"-c", "-i", src}, copts...), nil, nil)
		if r.RC == 0 {
			r = exec1([]string{"-d", "-i", src + ".knz"}, nil, nil)
			cur, _ = os.ReadFile(filepath.Join(root, src))
			if !bytes.Equal(cur, f0.Data) {
				return res.fail("cli-overwrote-existing", "decompression overwrote an existing file without the force option")
			}
			if r.RC == 0 {
				return res.fail("cli-overwrite-status", "decompression onto an existing file without force exits with status 0")
			}
			// decompression with the output naming the input itself, forced: directly, through
			// another spelling of the path, and through a hard link - the stream must survive
			knz := filepath.Join(root, src+".knz")
			orig, _ := os.ReadFile(knz)
			hard := filepath.Join(root, "hard.knz")
			os.Link(knz, hard)
			for _, out := range []string{src + ".knz", filepath.Join(root, src+".knz"), "hard.knz"} {
				r = exec1([]string{"-d", "-i", src + ".knz", "-o", out, "-f"}, nil, nil)
				cur, err := os.ReadFile(knz)
				if err != nil || !bytes.Equal(cur, orig) {
					return res.fail("cli-wrote-own-input", "decompression with -o %s naming its own input and -f: the input stream is gone or changed afterwards (exit status %d)", out, r.RC)
				}
				res.Probes["safety.decompress.onto.itself"]++
			}
		}
		res.Probes["safety.cases"]++
		res.NonTriv = true
		return res

	case 2:
		// ---- kill points during a --rm run
		dir := t.Intn(3) // 0,1: compress direction; 2: decompress direction
		args := append([]string{"-c", "-i", "in", "--rm"}, copts...)
		if nfiles == 1 && t.Intn(2) == 0 {
			args[2] = filepath.Join("in", files[0].Rel)
		}
		knzOf := map[string][]byte{}
		if dir == 2 {
			// prepare the compressed tree first (plain run), then kill the decompression
			r := exec1(append([]string{"-c", "-i", "in", "--rm"}, copts...), nil, nil)
			if r.RC != 0 {
				res.Verdict = "skip"
				res.Detail = "preparation run failed (round-trip family's business)"
				return res
			}
			for rel, b := range snapshot(in) {
				knzOf[rel] = b
			}
			args = []string{"-d", "-i", "in", "--rm", "-j", fmt.Sprint(jobs)}
		}
		base := snapshot(in)
		// count run
		r0 := exec1(args, map[string]string{"KSIM_SEED": simSeed, "KSIM_TRACE": trace}, nil)
		if r0.RC != 0 {
			res.Verdict = "skip"
			res.Detail = fmt.Sprintf("fault-free run exits with %d (round-trip family's business)", r0.RC)
			return res
		}
		N := len(r0.Trace)
		if N == 0 {
			return res.fail("harness-no-trace", "the simulated CLI produced no trace")
		}
		// kill points: all of them for short runs, otherwise around the application-level points plus random ones
		var ks []int
		if N <= 60 {
			for k := 1; k <= N; k++ {
				ks = append(ks, k)
			}
			res.Probes["kill.exhaustive.runs"]++
		} else {
			seen := map[int]bool{}
			add := func(k int) {
				if k >= 1 && k <= N && !seen[k] {
					seen[k] = true
					ks = append(ks, k)
				}
			}
			var appIdx []int
			for i, l := range r0.Trace {
				if strings.Contains(l, " app.") || strings.Contains(l, " out.close") {
					appIdx = append(appIdx, i+1)
				}
			}
			for n := 0; n < 8 && len(appIdx) > 0; n++ {
				p := appIdx[t.Intn(len(appIdx))]
				add(p + t.Range(-1, 2))
			}
			for n := 0; n < 6; n++ {
				add(1 + t.Intn(N))
			}
		}
		res.Render["kill_points"] = ks
		res.Render["events_fault_free"] = N
		for _, k := range ks {
			// restore the tree as it was before the run
			os.RemoveAll(in)
			var restore []treeFile
			for rel, b := range base {
				restore = append(restore, treeFile{rel, b})
			}
			writeTree(in, restore)
			r := exec1(args, map[string]string{"KSIM_SEED": simSeed, "KSIM_KILL": fmt.Sprint(k), "KSIM_TRACE": trace}, nil)
			res.Faults["kill"]++
			if !r.Killed {
				if r.RC == 0 && k >= len(r.Trace) {
					res.Probes["kill.after.end"]++
				} else {
					return res.fail("harness-kill-missed", "kill at event %d did not happen (rc %d, %d events): the schedule is not reproducible", k, r.RC, len(r.Trace))
				}
			}
			if len(r.Trace) >= 1 && len(r.Trace) <= len(r0.Trace) {
				for i := range r.Trace {
					if r.Trace[i] != r0.Trace[i] {
						return res.fail("harness-nondeterministic-cli", "trace of the killed run diverges from the fault-free run at event %d: %q vs %q", i+1, r.Trace[i], r0.Trace[i])
					}
				}
			}
			after := snapshot(in)
			if dir != 2 {
				for rel, data := range orig {
					if cur, ok := after[rel]; ok && bytes.Equal(cur, data) {
						continue // source still there, intact
					}
					if _, ok := after[rel]; ok {
						return res.fail("kill-source-damaged", "killed at event %d of %d (%s): source %s exists but is modified", k, N, r0.Trace[min(k, N)-1], rel)
					}
					knz, ok := after[rel+".knz"]
					if !ok || !decodesTo(knz, data) {
						return res.fail("kill-data-lost", "killed at event %d of %d (%s): source %s is gone and its output %s (present=%v, %d bytes) does not decode to it", k, N, r0.Trace[min(k, N)-1], rel, rel+".knz", ok, len(knz))
					}
					res.Probes["kill.source.gone.output.good"]++
				}
			} else {
				for rel, knz := range knzOf {
					name := strings.TrimSuffix(rel, ".knz")
					data := orig[name]
					if cur, ok := after[rel]; ok && bytes.Equal(cur, knz) {
						continue
					}
					if _, ok := after[rel]; ok {
						return res.fail("kill-source-damaged", "killed at event %d of %d: compressed source %s exists but is modified", k, N, rel)
					}
					got, ok := after[name]
					if !ok || !bytes.Equal(got, data) {
						return res.fail("kill-data-lost", "killed at event %d of %d (%s): compressed source %s is gone and the restored file %s (present=%v, %d of %d bytes) is not complete", k, N, r0.Trace[min(k, N)-1], rel, name, ok, len(got), len(data))
					}
					res.Probes["kill.source.gone.output.good"]++
				}
			}
		}
		res.NonTriv = true
		return res

	default:
		// ---- the output device fails (disk full) during a --rm compression: exit != 0 and the sources survive
		args := append([]string{"-c", "-i", "in", "--rm"}, copts...)
		r0 := exec1(args, map[string]string{"KSIM_SEED": simSeed, "KSIM_TRACE": trace}, nil)
		if r0.RC != 0 {
			res.Verdict = "skip"
			res.Detail = "fault-free run fails (round-trip family's business)"
			return res
		}
		nw := 0
		for _, l := range r0.Trace {
			if strings.Contains(l, " out.write ") {
				nw++
			}
		}
		if nw == 0 {
			res.Verdict = "skip"
			return res
		}
		for n := 0; n < min(nw, 4); n++ {
			os.RemoveAll(in)
			writeTree(in, files)
			k := t.Intn(nw)
			kind := t.Intn(2)
			r := exec1(args, map[string]string{"KSIM_SEED": simSeed, "KSIM_FAIL_OUT": fmt.Sprint(k), "KSIM_FAIL_KIND": fmt.Sprint(kind), "KSIM_TRACE": trace}, nil)
			res.Faults["sink.err.cli"]++
			if r.Killed {
				return res.fail("cli-crashed", "output write #%d fails: the tool died with signal %d: %s", k, -r.RC, firstLineOf(r.Out))
			}
			if r.RC == 0 {
				return res.fail("cli-swallowed-write-error", "output write #%d of %d fails (disk full) but the tool exits with status 0", k, nw)
			}
			if strings.Contains(r.Out, "panic:") || strings.Contains(r.Out, "goroutine ") {
				return res.fail("cli-crashed", "output write #%d fails: the tool crashed: %s", k, firstLineOf(r.Out))
			}
			after := snapshot(in)
			for rel, data := range orig {
				if cur, ok := after[rel]; ok && bytes.Equal(cur, data) {
					continue
				}
				knz, ok := after[rel+".knz"]
				if _, still := after[rel]; !still && (!ok || !decodesTo(knz, data)) {
					return res.fail("sinkfail-data-lost", "output write #%d fails: source %s was removed although its output is not complete", k, rel)
				}
			}
		}
		res.NonTriv = true
		return res
	}
}

func firstLineOf(s string) string {
	for _, l := range strings.Split(s, "\n") {
		l = strings.TrimSpace(l)
		if l != "" && !strings.HasPrefix(l, "Kanzi ") {
			if len(l) > 200 {
				l = l[:200]
			}
			return l
		}
	}
	return ""
}

var _ = sim.Mix
