// Package props holds one workload generator + oracle per claimed property.
package props

import (
	"bytes"
	"errors"
	"fmt"
	"io"
	"sort"
	"strings"

	"github.com/flanglet/kanzi-go/v2/bitstream"
	kio "github.com/flanglet/kanzi-go/v2/io"
	"github.com/flanglet/kanzi-go/v2/verifharness/sim"
)

// Case is one simulated run request.
type Case struct {
	Prop       string
	Seed       uint64
	Index      int
	Tier       string
	Tape       *sim.Tape
	KeepTrace  bool
	Neutralise string // id of a known finding whose trigger is neutralised (differential attribution)
}

func (c *Case) Thorough() bool { return c.Tier == "thorough" }

// Result is what a run reports.
type Result struct {
	Prop    string         `json:"prop"`
	Index   int            `json:"i"`
	Verdict string         `json:"v"` // ok | fail | skip
	Class   string         `json:"class,omitempty"`
	Detail  string         `json:"detail,omitempty"`
	Feat    []string       `json:"feat,omitempty"` // features used for finding attribution
	Events  int            `json:"ev"`
	Tasks   int            `json:"tasks"`
	Sched   string         `json:"ss,omitempty"`
	Cfg     string         `json:"cfg,omitempty"`
	Faults  map[string]int `json:"faults,omitempty"`
	Probes  map[string]int `json:"probes,omitempty"`
	NonTriv bool           `json:"nt"`
	Tape    []uint32       `json:"tape,omitempty"`
	Render  map[string]any `json:"render,omitempty"`
	TapeLen int            `json:"tl"`
}

func newResult(c *Case) *Result {
	return &Result{Prop: c.Prop, Index: c.Index, Verdict: "ok", Faults: map[string]int{}, Probes: map[string]int{}, Render: map[string]any{}}
}

func (r *Result) fail(class, format string, args ...any) *Result {
	if r.Verdict != "fail" {
		r.Verdict = "fail"
		r.Class = class
		r.Detail = fmt.Sprintf(format, args...)
		if len(r.Detail) > 600 {
			r.Detail = r.Detail[:600] + "..."
		}
	}
	return r
}

func (r *Result) feat(f string) {
	for _, x := range r.Feat {
		if x == f {
			return
		}
	}
	r.Feat = append(r.Feat, f)
	sort.Strings(r.Feat)
}

// absorb copies the kernel's counters into the result and turns kernel
// violations into failures.
func (r *Result) absorb(s *sim.Sched) {
	r.Events += s.Seq
	r.Tasks += s.Tasks
	r.Sched = fmt.Sprintf("%016x", s.Sig^sim.HashString(r.Sched))
	for k, v := range s.Faults {
		r.Faults[k] += v
	}
	for k, v := range s.Probes {
		r.Probes[k] += v
	}
	for _, rec := range s.Recovereds {
		if rec.Site != "injected" {
			r.feat("panic@" + rec.Site)
		}
	}
	if s.Viol != nil {
		r.fail(s.Viol.Class, "%s (at event %d)", s.Viol.Detail, s.Viol.Seq)
	}
	if len(s.Trace) > 0 {
		r.Render["trace"] = renderTrace(s.Trace)
	}
	if len(s.Recovereds) > 0 {
		r.Render["recovered"] = s.Recovereds
	}
}

func renderTrace(tr []sim.Event) []string {
	out := make([]string, 0, len(tr))
	for _, e := range tr {
		out = append(out, fmt.Sprintf("%d t%d %s %d %d", e.Seq, e.Task, e.Name, e.A, e.B))
	}
	if len(out) > 3000 {
		out = append(out[:1500], append([]string{"..."}, out[len(out)-1500:]...)...)
	}
	return out
}

// Prop is a property check: it runs one case.
type Prop func(c *Case) *Result

var Registry = map[string]Prop{}

// ---------------------------------------------------------------- pipeline helpers

func hintValue(cfg *Config, n int, t *sim.Tape) {
	switch cfg.Hint {
	case "absent":
		cfg.HintValue = 0
	case "exact":
		cfg.HintValue = int64(n)
	case "smaller":
		if n <= 1 {
			cfg.Hint = "exact"
			cfg.HintValue = int64(n)
		} else {
			cfg.HintValue = int64(1 + t.Intn(n-1))
		}
	case "larger":
		cfg.HintValue = int64(n + 1 + t.Intn(4*cfg.BlockSize+1))
	}
}

// WOutcome is everything observable from one compression.
type WOutcome struct {
	NewErr    error
	WriteErr  error // first error returned by Write
	WriteN    int   // bytes accepted before the error
	ShortOK   bool  // a Write returned n < len with a nil error
	CloseErr  error
	Panic     any
	Written   uint64
	FirstFail string // which call failed first: "new", "write#k", "close"
}

func (w WOutcome) Err() error {
	switch {
	case w.NewErr != nil:
		return w.NewErr
	case w.WriteErr != nil:
		return w.WriteErr
	case w.CloseErr != nil:
		return w.CloseErr
	case w.Panic != nil:
		return fmt.Errorf("panic: %v", w.Panic)
	}
	return nil
}

// OpenWriter builds the real Writer; cfg.WBuf != 0 selects a custom size for the
// buffer of the shared output bitstream (a tuning knob the simulator randomises).
func OpenWriter(cfg Config, sink io.WriteCloser) (*kio.Writer, error) {
	if cfg.WBuf == 0 && !cfg.SkipBlocks {
		return kio.NewWriter(sink, cfg.Transform, cfg.Entropy, uint(cfg.BlockSize), uint(cfg.Jobs), uint(cfg.Checksum), cfg.HintValue, cfg.Headerless)
	}
	ctx := map[string]any{"entropy": cfg.Entropy, "transform": cfg.Transform, "blockSize": uint(cfg.BlockSize), "jobs": uint(cfg.Jobs),
		"checksum": uint(cfg.Checksum), "fileSize": cfg.HintValue, "headerless": cfg.Headerless}
	if cfg.SkipBlocks {
		ctx["skipBlocks"] = true
	}
	if cfg.WBuf == 0 {
		return kio.NewWriterWithCtx(sink, ctx)
	}
	obs, err := bitstream.NewDefaultOutputBitStream(sink, uint(cfg.WBuf))
	if err != nil {
		return nil, err
	}
	return kio.NewWriterWithCtx2(obs, ctx)
}

// Compress drives the real Writer.
func Compress(cfg Config, data []byte, pieces []int, sink io.WriteCloser) (out WOutcome) {
	defer func() {
		if r := recover(); r != nil {
			out.Panic = r
		}
	}()

	w, err := OpenWriter(cfg, sink)
	if err != nil {
		out.NewErr = err
		out.FirstFail = "new"
		return
	}

	off := 0
	if pieces == nil {
		pieces = []int{len(data)}
	}
	for k, l := range pieces {
		n, err := w.Write(data[off : off+l])
		if err != nil {
			out.WriteErr = err
			out.WriteN = off + n
			out.FirstFail = fmt.Sprintf("write#%d", k)
			break
		}
		if n != l {
			out.ShortOK = true
			out.WriteN = off + n
			break
		}
		off += l
	}

	if err := w.Close(); err != nil {
		out.CloseErr = err
		if out.FirstFail == "" {
			out.FirstFail = "close"
		}
	}
	out.Written = w.GetWritten()
	return
}

// ROutcome is everything observable from one decompression read loop.
type ROutcome struct {
	NewErr   error
	Data     []byte
	Err      error // terminal result: io.EOF or another error
	Calls    int
	Panic    any
	ZeroNil  int   // calls that returned (0, nil) for a non-empty buffer
	After    []int // byte counts returned by calls made after the terminal error
	AfterErr []string
	AfterBuf []byte
}

// ReaderSpec says how to build the reader.
type ReaderSpec struct {
	Jobs       int
	Headerless bool
	Cfg        Config // used in headerless mode
	From, To   int    // block range, 0 = unset
	OrigSize   int64
	RBuf       int // size of the buffer of the shared input bitstream (0 = default)
}

func NewReader(spec ReaderSpec, src io.ReadCloser) (*kio.Reader, error) {
	open := func(ctx map[string]any) (*kio.Reader, error) {
		if spec.RBuf == 0 {
			return kio.NewReaderWithCtx(src, ctx)
		}
		ibs, err := bitstream.NewDefaultInputBitStream(src, uint(spec.RBuf))
		if err != nil {
			return nil, err
		}
		return kio.NewReaderWithCtx2(ibs, ctx)
	}
	if spec.Headerless {
		ctx := map[string]any{"jobs": uint(spec.Jobs), "transform": spec.Cfg.Transform, "entropy": spec.Cfg.Entropy,
			"blockSize": uint(spec.Cfg.BlockSize), "checksum": uint(spec.Cfg.Checksum), "outputSize": spec.OrigSize,
			"bsVersion": uint(6), "headerless": true}
		if spec.From > 0 {
			ctx["from"] = spec.From
		}
		if spec.To > 0 {
			ctx["to"] = spec.To
		}
		return open(ctx)
	}
	ctx := map[string]any{"jobs": uint(spec.Jobs)}
	if spec.From > 0 {
		ctx["from"] = spec.From
	}
	if spec.To > 0 {
		ctx["to"] = spec.To
	}
	return open(ctx)
}

// Decompress drives the real Reader: reads with the given buffer lengths
// (cycled; nil = 64 KiB) until a terminal result, then makes `after` more calls.
func Decompress(spec ReaderSpec, src io.ReadCloser, sizes []int, after int, limit int) (out ROutcome) {
	defer func() {
		if r := recover(); r != nil {
			out.Panic = r
		}
	}()

	rd, err := NewReader(spec, src)
	if err != nil {
		out.NewErr = err
		return
	}
	defer rd.Close()

	if len(sizes) == 0 {
		sizes = []int{65536}
	}
	if limit == 0 {
		limit = 1 << 30
	}
	zeroRun := 0
	for k := 0; ; k++ {
		l := sizes[k%len(sizes)]
		buf := make([]byte, l)
		n, err := rd.Read(buf)
		out.Calls++
		out.Data = append(out.Data, buf[:n]...)
		if err != nil {
			out.Err = err
			break
		}
		if n == 0 && l > 0 {
			out.ZeroNil++
			zeroRun++
			if zeroRun > 100 {
				out.Err = errors.New("harness: Read keeps returning (0, nil)")
				break
			}
		} else if n > 0 {
			zeroRun = 0
		}
		if len(out.Data) > limit {
			out.Err = errors.New("harness: output limit exceeded")
			break
		}
	}

	for k := 0; k < after; k++ {
		buf := make([]byte, sizes[k%len(sizes)]+1)
		n, err := rd.Read(buf)
		out.After = append(out.After, n)
		out.AfterBuf = append(out.AfterBuf, buf[:n]...)
		if err != nil {
			out.AfterErr = append(out.AfterErr, err.Error())
		} else {
			out.AfterErr = append(out.AfterErr, "")
		}
	}
	return
}

func errStr(e error) string {
	if e == nil {
		return "<nil>"
	}
	return e.Error()
}

func isEOF(e error) bool { return e == io.EOF }

// diffAt returns the first index where a and b differ (or -1).
func diffAt(a, b []byte) int {
	n := min(len(a), len(b))
	for i := 0; i < n; i++ {
		if a[i] != b[i] {
			return i
		}
	}
	if len(a) != len(b) {
		return n
	}
	return -1
}

func isPrefix(p, whole []byte) bool { return len(p) <= len(whole) && bytes.Equal(p, whole[:len(p)]) }

func upper(s string) string { return strings.ToUpper(s) }

// chainHas reports whether the transform chain of cfg contains name (case-insensitive).
func chainHas(cfg Config, name string) bool {
	for _, p := range strings.Split(upper(cfg.Transform), "+") {
		if p == name {
			return true
		}
	}
	return false
}
