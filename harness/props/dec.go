package props

import (
	"fmt"
	"math"
	"strings"

	"github.com/flanglet/kanzi-go/v2/verifharness/model"
	"github.com/flanglet/kanzi-go/v2/verifharness/sim"
)

func init() {
	Registry["C05"] = C05
	Registry["C02"] = C02
	Registry["C09"] = C09
	Registry["C11"] = C11
	Registry["C06"] = C06
}

// validStream draws a configuration and data and produces a valid stream with
// the real Writer outside any simulation. ok=false: the stream could not be
// produced or does not round-trip plainly (C01's business) and the case is skipped.
func validStream(c *Case, res *Result, o GenOpts, maxBlocksFn func(cfg Config) int) (cfg Config, data []byte, stream []byte, parsed *model.Stream, ok bool) {
	t := c.Tape
	cfg = GenConfig(t, o)
	maxBlocks := maxBlocksFn(cfg)
	if expensiveEntropy(cfg) {
		maxBlocks = min(maxBlocks, 2)
		cfg.BlockSize = min(cfg.BlockSize, 8192)
		cfg.Jobs = min(cfg.Jobs, 2)
		cfg.DecJobs = min(cfg.DecJobs, 2)
	}
	bigBWT := o.BigBWT && ((!c.Thorough() && c.Index%1200 == 11) || (c.Thorough() && t.Intn(150) == 0))
	legacy := o.LegacyWriter && t.Intn(6) == 0 && !bigBWT
	if legacy && t.Intn(2) == 0 {
		// chains whose stages expand small blocks (the pinned encoder keeps them whatever they cost)
		exp := []string{"SRT", "SRT", "MTFT", "TEXT", "BWTS", "RANK", "MM", "ZRLT", "SRT"}
		n := 2 + t.Intn(7)
		parts := make([]string, n)
		for i := range parts {
			parts[i] = exp[t.Intn(len(exp))]
		}
		cfg.Transform = strings.Join(parts, "+")
		cfg.BlockSize = 1024 + 16*t.Intn(64)
		cfg.DecJobs = 2 + t.Intn(3)
		cfg.Checksum = 0
		if t.Intn(2) == 0 {
			cfg.Entropy = []string{"ANS1", "ANS1", "RANGE", "HUFFMAN"}[t.Intn(4)] // large per-block tables on small blocks
		}
	}
	rec := GenDataRecipe(t, cfg.BlockSize, maxBlocks)
	if o.Geometry && !legacy {
		if g := Geometry(t, &cfg, &rec, c.Thorough()); g != "" {
			res.Probes["geometry."+g]++
			if g == "manyblocks" && t.Intn(2) == 0 {
				cfg.DecJobs = []int{2, 3, 64, 63, 16}[t.Intn(5)]
			}
		}
	}
	if bigBWT {
		// blocks above 4 MiB: the inverse BWT splits its work over the jobs given to the block
		// (helper goroutines), which depends on the decoder job count and on the declared size
		cfg.Transform = []string{"BWT", "BWT+ZRLT", "TEXT+BWT+RANK+ZRLT", "BWT+MTFT"}[t.Intn(4)]
		cfg.Entropy = []string{"NONE", "ANS0", "HUFFMAN"}[t.Intn(3)]
		cfg.BlockSize = 4*1024*1024 + 16*(1+t.Intn(32*1024))
		cfg.Jobs = 1 + t.Intn(2)
		cfg.DecJobs = 1 + t.Intn(8)
		rec = DataRecipe{Shape: []string{"text", "prose", "mixed"}[t.Intn(3)], Seed: t.Seed()}
		if t.Intn(3) == 0 {
			rec.Len = cfg.BlockSize + cfg.BlockSize/2 + t.Intn(100000)
		} else {
			rec.Len = cfg.BlockSize - t.Intn(64*1024)
		}
		res.Probes["geometry.big.bwt"]++
	}
	data = rec.Bytes()
	hintValue(&cfg, len(data), t)
	res.Cfg = cfg.Sig() + "/" + rec.Shape
	res.Render["config"] = cfg
	res.Render["data"] = rec
	var err error
	if legacy && !cfg.SkipBlocks && cfg.Hint != "smaller" {
		// a valid stream may also come from an older writer: the pinned reference encoder (kept only
		// if the reference decoder reads it back with one job, i.e. if it is a valid stream)
		stream, err = RefCompress(cfg, data)
		if err == nil {
			if out, derr := RefDecompress(cfg, stream, 1); derr != nil || diffAt(out, data) >= 0 {
				err = fmt.Errorf("the reference pair does not round-trip")
			}
		}
		if err == nil {
			res.Probes["stream.from.pinned.writer"]++
			res.feat("legacy-writer")
		}
	} else {
		stream, err = plainCompress(cfg, data)
	}
	if err != nil {
		res.Verdict = "skip"
		res.Detail = "stream could not be produced: " + err.Error()
		return
	}
	stream = append([]byte(nil), stream...)
	parsed, err = model.Parse(stream, cfg.Headerless, cfg.Checksum)
	nblocks := (len(data) + cfg.BlockSize - 1) / cfg.BlockSize
	if err != nil || len(parsed.Blocks) != nblocks || parsed.TotalLen != len(stream) {
		// the independent parser disagrees with the writer: format drift (C10's business);
		// the dependent checks keep their oracles and aim faults without the parser
		res.Probes["parser.drift"]++
		parsed = nil
	} else {
		res.Probes["parser.agrees"]++
	}
	ok = true
	return
}

func (cfg Config) readerSpec() ReaderSpec {
	return ReaderSpec{Jobs: cfg.DecJobs, Headerless: cfg.Headerless, Cfg: cfg, OrigSize: cfg.HintValue, RBuf: cfg.RBuf}
}

// simDecode decodes stream under the simulator.
var simNoHooks = sim.Hooks{}

func simDecode(c *Case, res *Result, hooks sim.Hooks, spec ReaderSpec, stream []byte, sizes []int, after int, limit int) ROutcome {
	sim.Heartbeat()
	var ro ROutcome
	s := sim.Run(c.Tape, sim.Options{Hooks: hooks, KeepTrace: c.KeepTrace, MaxEvents: 200000 + 4*len(stream)}, func(env *sim.Env) {
		src := sim.NewSimSource(env.S, "in", stream)
		ro = Decompress(spec, src, sizes, after, limit)
	})
	res.absorb(s)
	return ro
}

func readSizes(t *sim.Tape, blockSize int) []int {
	sizes := GenPartition(t, 4*blockSize, blockSize)
	for i := range sizes {
		if sizes[i] == 0 && t.Intn(2) == 0 {
			sizes[i] = 1
		}
	}
	nz := false
	for _, s := range sizes {
		if s > 0 {
			nz = true
		}
	}
	if !nz {
		sizes = append(sizes, blockSize)
	}
	return sizes
}

// allBytes is everything a caller received over the whole call history.
func allBytes(ro ROutcome) []byte {
	return append(append([]byte(nil), ro.Data...), ro.AfterBuf...)
}

// ---------------------------------------------------------------- C05

// C05: decoded output independent of parallelism; block order; error placement.
func C05(c *Case) *Result {
	res := newResult(c)
	t := c.Tape
	maxJobs := 16
	if c.Thorough() {
		maxJobs = 64
	}
	cfg, data, stream, parsed, ok := validStream(c, res, GenOpts{SkipOpt: true, Cheap: t.Intn(8) != 0, MaxJobs: maxJobs, MaxBlock: 8192, ExactHint: true, Headerless: true, MaxChain: 8, Geometry: true, LegacyWriter: true, BigBWT: true},
		func(cfg Config) int { return min(3*cfg.DecJobs+2, 70) })
	if !ok {
		return res
	}
	cfg.RBuf = GenBuf(t)
	sizes := readSizes(t, cfg.BlockSize)
	res.Render["read_sizes"] = headInts(sizes, 16)
	nblocks := (len(data) + cfg.BlockSize - 1) / cfg.BlockSize

	damage := t.Intn(2) == 1 && parsed != nil && nblocks > 0
	if !damage {
		ro := simDecode(c, res, sim.Hooks{}, cfg.readerSpec(), stream, sizes, 0, len(data)+cfg.BlockSize+64)
		res.NonTriv = res.Tasks > 1
		if res.Verdict == "fail" {
			return res
		}
		if ro.NewErr != nil || ro.Panic != nil {
			return res.fail("reader-broken", "constructor error %v / panic %v", ro.NewErr, ro.Panic)
		}
		if !isEOF(ro.Err) {
			return res.fail("decode-error", "decoder jobs %d: valid stream failed after %d of %d bytes: %v", cfg.DecJobs, len(ro.Data), len(data), ro.Err)
		}
		if d := diffAt(ro.Data, data); d >= 0 {
			return res.fail("decode-mismatch", "decoder jobs %d: output differs from the original at byte %d (got %d bytes, want %d): blocks duplicated, dropped, reordered or stale", cfg.DecJobs, d, len(ro.Data), len(data))
		}
		return res
	}

	// one damaged block k (1-based)
	k := 1 + t.Intn(nblocks)
	switch t.Pick(2, 2, 1, 1) {
	case 1:
		k = 1 + (t.Intn(nblocks)/max(cfg.DecJobs, 1))*max(cfg.DecJobs, 1) // first of a batch
		if k > nblocks {
			k = nblocks
		}
	case 2:
		k = nblocks
	case 3:
		k = 1
	}
	b := parsed.Blocks[k-1]
	nflip := 1 + t.Intn(3)
	for i := 0; i < nflip; i++ {
		var pos int
		switch t.Pick(4, 1, 1) {
		case 0:
			pos = b.BodyPos + t.Intn(max(b.EndPos-b.BodyPos, 1))
		case 1:
			pos = b.PayloadPos + t.Intn(8) // mode byte
		default:
			pos = b.PreLenPos + t.Intn(b.PreLenBits)
		}
		if pos >= b.EndPos {
			pos = b.EndPos - 1
		}
		model.FlipBit(stream, pos)
	}
	res.Faults["store.flip"] += nflip
	res.Render["damaged_block"] = k
	after := 1 + t.Intn(4)
	ro := simDecode(c, res, sim.Hooks{}, cfg.readerSpec(), stream, sizes, after, len(data)+2*cfg.BlockSize+64)
	res.NonTriv = res.Tasks > 1
	if res.Verdict == "fail" {
		return res
	}
	if ro.Panic != nil {
		return res.fail("reader-panic", "panic escaped Read: %v", ro.Panic)
	}
	got := allBytes(ro)
	before := (k - 1) * cfg.BlockSize
	if ro.Err != nil && !isEOF(ro.Err) {
		res.Probes["failed.block.reported"]++
		// error reported: nothing from the failed block or beyond may ever be delivered
		if !isPrefix(got, data) {
			d := diffAt(got, data[:min(len(got), len(data))])
			return res.fail("wrong-bytes-after-failure", "block %d damaged, error reported (%v) but the caller received bytes that are not a prefix of the original (first difference at byte %d, %d bytes received of which %d after the error)", k, ro.Err, d, len(got), len(ro.AfterBuf))
		}
		if len(got) > before {
			return res.fail("data-beyond-failed-block", "block %d damaged, error reported, but %d bytes were delivered while only %d precede the failed block", k, len(got), before)
		}
		return res
	}
	// no error: without checksum the damaged block may decode to something else, all other blocks must be intact
	if cfg.Checksum != 0 {
		if d := diffAt(got, data); d >= 0 {
			return res.fail("silent-corruption", "checksummed stream, block %d damaged, no error reported and output differs at byte %d", k, d)
		}
		res.Probes["damage.harmless"]++
		return res
	}
	// Without a checksum and without a detected failure nothing is promised about a
	// damaged stream (the property speaks about valid streams and about blocks whose
	// decoding fails): counted, not judged.
	res.Probes["damage.undetected.nochecksum"]++
	return res
}

// ---------------------------------------------------------------- C02

// damagePayload applies a set of modifications confined to block payloads.
func damagePayload(t *sim.Tape, stream []byte, parsed *model.Stream, res *Result) (first int) {
	n := 1
	switch t.Pick(3, 2, 1) {
	case 1:
		n = 2 + t.Intn(3)
	case 2:
		n = 5 + t.Intn(4)
	}
	first = len(parsed.Blocks) + 1
	for i := 0; i < n; i++ {
		bi := t.Intn(len(parsed.Blocks))
		b := parsed.Blocks[bi]
		if bi+1 < first {
			first = bi + 1
		}
		var pos int
		switch t.Pick(4, 1, 1, 1, 1, 1) {
		case 0:
			pos = b.BodyPos + t.Intn(max(b.EndPos-b.BodyPos, 1))
		case 1:
			pos = b.PayloadPos + t.Intn(8) // mode byte
		case 2:
			pos = b.PreLenPos + t.Intn(b.PreLenBits)
		case 3:
			if b.CkPos >= 0 {
				pos = b.CkPos + t.Intn(32)
			} else {
				pos = b.BodyPos
			}
		case 4:
			pos = b.BodyPos + t.Intn(min(64, max(b.EndPos-b.BodyPos, 1))) // tables
		default:
			pos = b.EndPos - 1 - t.Intn(min(8, b.PayloadLen))
		}
		if pos >= b.EndPos {
			pos = b.EndPos - 1
		}
		if pos < b.PayloadPos {
			pos = b.PayloadPos
		}
		switch t.Pick(3, 1, 1) {
		case 0:
			model.FlipBit(stream, pos)
			res.Faults["store.flip"]++
		case 1:
			// byte substitution inside the payload
			w := min(8, b.EndPos-pos)
			model.SetBits(stream, pos, w, uint64(t.Intn(256))>>(8-uint(w)))
			res.Faults["store.subst"]++
		default:
			// swap two payload bytes of the same block; a third of the time two NEIGHBOURING bytes
			// aligned with the block body, half of those at its very end (a transposition is the
			// damage an order-insensitive checksum step would miss)
			if body := b.EndPos - b.BodyPos; body >= 32 && t.Intn(3) == 0 {
				k := t.Intn(body/8 - 1)
				if t.Intn(2) == 0 {
					k = body/8 - 2 - t.Intn(min(3, body/8-1))
				}
				p1 := b.BodyPos + 8*k
				p2 := p1 + 8
				v1, v2 := model.GetBits(stream, p1, 8), model.GetBits(stream, p2, 8)
				model.SetBits(stream, p1, 8, v2)
				model.SetBits(stream, p2, 8, v1)
				res.Faults["store.swap.adjacent"]++
			} else if b.PayloadLen >= 32 {
				p1 := b.PayloadPos + t.Intn(b.PayloadLen-8)
				p2 := b.PayloadPos + t.Intn(b.PayloadLen-8)
				v1, v2 := model.GetBits(stream, p1, 8), model.GetBits(stream, p2, 8)
				model.SetBits(stream, p1, 8, v2)
				model.SetBits(stream, p2, 8, v1)
				res.Faults["store.swap"]++
			} else {
				model.FlipBit(stream, pos)
				res.Faults["store.flip"]++
			}
		}
	}
	return first
}

// C02: checksummed streams never yield wrong bytes.
func C02(c *Case) *Result {
	res := newResult(c)
	t := c.Tape
	cfg, data, stream, parsed, ok := validStream(c, res, GenOpts{SkipOpt: true, Cheap: t.Intn(3) != 0, MaxJobs: 8, MaxBlock: 16384, ExactHint: true, Headerless: true, Checksummed: true},
		func(cfg Config) int { return min(2*cfg.DecJobs+2, 12) })
	if !ok {
		return res
	}
	cfg.RBuf = GenBuf(t)
	sizes := readSizes(t, cfg.BlockSize)
	nblocks := len(data) / max(cfg.BlockSize, 1)
	_ = nblocks
	mode := t.Pick(5, 2, 2) // wire damage, encoder pipeline damage, decoder pipeline damage
	if parsed == nil || len(parsed.Blocks) == 0 {
		if len(data) == 0 {
			res.Verdict = "skip"
			res.Detail = "empty stream: no payload to damage"
			return res
		}
		mode = 1 + t.Intn(2)
	}
	res.Render["mode"] = []string{"wire", "pipe.enc", "pipe.dec"}[mode]
	after := t.Intn(6)
	var hooks sim.Hooks
	mustFail := false

	switch mode {
	case 0:
		orig := append([]byte(nil), stream...)
		damagePayload(t, stream, parsed, res)
		if diffAt(orig, stream) < 0 {
			res.Probes["damage.noop"]++
		}
	case 1:
		// in-pipeline damage on the encoder side: re-encode under the simulator with one
		// byte of one block changed between hashing and coding
		nb := (len(data) + cfg.BlockSize - 1) / cfg.BlockSize
		victim := 1 + t.Intn(nb)
		fired := false
		h := sim.Hooks{OnCorrupt: func(s *sim.Sched, ti *sim.TaskInfo, site string, n int) (int, byte, bool) {
			if site == "enc.data" && ti.BlockID == victim && n > 0 && !fired {
				fired = true
				s.Fault("pipe.corrupt.enc")
				return s.Tape.Intn(n), byte(1 + s.Tape.Intn(255)), true
			}
			return 0, 0, false
		}}
		var wo WOutcome
		var got []byte
		s := sim.Run(t, sim.Options{Hooks: h, KeepTrace: c.KeepTrace}, func(env *sim.Env) {
			sink := sim.NewSimSink(env.S, "out")
			wo = Compress(cfg, data, nil, sink)
			got = sink.Data
		})
		res.absorb(s)
		if res.Verdict == "fail" {
			return res
		}
		if wo.Err() != nil {
			// the encoder noticed by itself (a transform may fail on the changed block): fine
			res.Probes["pipe.enc.failed.early"]++
			return res
		}
		if !fired {
			res.Verdict = "skip"
			res.Detail = "corruption point not reached"
			return res
		}
		stream = got
		mustFail = true
	case 2:
		nb := (len(data) + cfg.BlockSize - 1) / cfg.BlockSize
		victim := 1 + t.Intn(nb)
		hooks.OnCorrupt = func(s *sim.Sched, ti *sim.TaskInfo, site string, n int) (int, byte, bool) {
			if site == "dec.data" && ti.BlockID == victim && n > 0 {
				s.Fault("pipe.corrupt.dec")
				return s.Tape.Intn(n), byte(1 + s.Tape.Intn(255)), true
			}
			return 0, 0, false
		}
		mustFail = true
	}

	ro := simDecode(c, res, hooks, cfg.readerSpec(), stream, sizes, after, len(data)+2*cfg.BlockSize+64)
	res.NonTriv = true
	if res.Verdict == "fail" {
		return res
	}
	if ro.NewErr != nil {
		res.Verdict = "skip"
		res.Detail = "reader constructor: " + ro.NewErr.Error()
		return res
	}
	if ro.Panic != nil {
		return res.fail("reader-panic", "panic escaped Read: %v", ro.Panic)
	}
	got := allBytes(ro)
	if !isPrefix(got, data) {
		d := diffAt(got, data[:min(len(got), len(data))])
		return res.fail("wrong-bytes", "checksum %d: the caller received bytes that differ from the original at byte %d (%d bytes before the first error/EOF, %d bytes from %d later calls; first terminal result: %v)", cfg.Checksum, d, len(ro.Data), len(ro.AfterBuf), len(ro.After), ro.Err)
	}
	if isEOF(ro.Err) && len(got) != len(data) {
		return res.fail("short-success", "end of stream reported after %d of %d bytes without any error", len(got), len(data))
	}
	if mustFail && (ro.Err == nil || isEOF(ro.Err)) {
		return res.fail("pipeline-damage-unreported", "a block whose decoded content differs from what was hashed was not reported (terminal result %v)", ro.Err)
	}
	if ro.Err != nil && !isEOF(ro.Err) {
		res.Probes["damage.reported"]++
		if len(ro.AfterBuf) > 0 {
			res.Probes["bytes.after.error"]++
		}
	} else {
		res.Probes["damage.harmless"]++
	}
	return res
}

// ---------------------------------------------------------------- C09

// C09: truncated streams are always detected.
func C09(c *Case) *Result {
	res := newResult(c)
	t := c.Tape
	exhaustive := t.Intn(4) == 0
	o := GenOpts{SkipOpt: true, Cheap: t.Intn(4) != 0, MaxJobs: 8, MaxBlock: 16384, ExactHint: true, Headerless: true}
	if exhaustive {
		o.MaxBlock = 1024
	}
	cfg, data, stream, parsed, ok := validStream(c, res, o, func(cfg Config) int {
		if exhaustive {
			return 3
		}
		return min(2*cfg.DecJobs+2, 12)
	})
	if !ok {
		return res
	}
	var cuts []int
	if exhaustive && len(stream) <= 4096 {
		for p := 0; p < len(stream); p++ {
			cuts = append(cuts, p)
		}
		res.Probes["exhaustive.streams"]++
	} else {
		seen := map[int]bool{}
		add := func(p int) {
			if p >= 0 && p < len(stream) && !seen[p] {
				seen[p] = true
				cuts = append(cuts, p)
			}
		}
		for d := 0; d <= 16; d++ {
			add(len(stream) - 1 - d)
		}
		for d := 0; d < 30; d++ {
			add(d)
		}
		if parsed != nil {
			for _, b := range parsed.Blocks {
				for d := -2; d <= 2; d++ {
					add(b.RecordPos/8 + d)
					add(b.PayloadPos/8 + d)
					add(b.EndPos/8 + d)
				}
			}
			add(parsed.Hdr.Bits/8 - 1)
			add(parsed.Hdr.Bits / 8)
			add(parsed.Hdr.Bits/8 + 1)
		}
		for i := 0; i < 24; i++ {
			add(t.Intn(len(stream)))
		}
	}
	res.Render["cuts"] = len(cuts)
	res.Render["stream_len"] = len(stream)
	sizes := []int{65536}
	for _, cut := range cuts {
		spec := cfg.readerSpec()
		spec.Jobs = 1 + (cut+cfg.DecJobs)%8
		if expensiveEntropy(cfg) {
			spec.Jobs = min(spec.Jobs, 2)
		}
		ro := simDecode(c, res, sim.Hooks{}, spec, stream[:cut], sizes, 0, len(data)+2*cfg.BlockSize+64)
		res.Probes["cuts"]++
		res.Faults["src.eof"]++
		if res.Verdict == "fail" {
			res.Detail = fmt.Sprintf("cut at %d of %d: %s", cut, len(stream), res.Detail)
			return res
		}
		if ro.Panic != nil {
			return res.fail("reader-panic", "cut at %d of %d bytes: panic escaped Read: %v", cut, len(stream), ro.Panic)
		}
		if ro.NewErr != nil {
			continue
		}
		if ro.Err == nil || isEOF(ro.Err) {
			return res.fail("truncation-undetected", "stream cut at byte %d of %d (decoder jobs %d): the read loop ended with %v after delivering %d of %d bytes", cut, len(stream), spec.Jobs, ro.Err, len(ro.Data), len(data))
		}
		if !isPrefix(ro.Data, data) {
			return res.fail("wrong-bytes", "stream cut at byte %d of %d: bytes delivered before the error are not a prefix of the original", cut, len(stream))
		}
	}
	res.NonTriv = len(cuts) > 0
	return res
}

// ---------------------------------------------------------------- C11

// C11: block-range decoding returns exactly the requested slice.
func C11(c *Case) *Result {
	res := newResult(c)
	t := c.Tape
	// (a fifth of the streams with an advisory size hint that is not the true size; the special
	// geometries give streams of 60-150 blocks, beyond the 63 the declared size can express)
	cfg, data, stream, parsed, ok := validStream(c, res, GenOpts{SkipOpt: true, Cheap: t.Intn(8) != 0, MaxJobs: 8, MaxBlock: 4096, ExactHint: t.Intn(5) != 0, Headerless: true, MaxChain: 3, Geometry: true},
		func(cfg Config) int { return 12 })
	if !ok {
		return res
	}
	B := cfg.BlockSize
	nblocks := (len(data) + B - 1) / B
	sizes := readSizes(t, B)
	// damage the bodies of some blocks: a skipped block is never decoded, so a range that
	// avoids them must be unaffected
	damaged := map[int]bool{}
	dstream := stream
	if parsed != nil && nblocks > 1 && t.Intn(3) == 0 {
		dstream = append([]byte(nil), stream...)
		nd := 1 + t.Intn(2)
		for i := 0; i < nd; i++ {
			bi := t.Intn(nblocks)
			b := parsed.Blocks[bi]
			if b.EndPos-b.BodyPos > 8 {
				model.FlipBit(dstream, b.BodyPos+t.Intn(b.EndPos-b.BodyPos))
				model.FlipBit(dstream, b.BodyPos+t.Intn(b.EndPos-b.BodyPos))
				damaged[bi+1] = true
				res.Faults["store.flip.skipped.block"]++
			}
		}
	}
	res.Render["blocks"] = nblocks
	res.Render["damaged_blocks"] = len(damaged)
	ranges := 0
	try := func(from, to int) *Result {
		spec := cfg.readerSpec()
		spec.From, spec.To = from, to
		spec.Jobs = 1 + t.Intn(8)
		if expensiveEntropy(cfg) {
			spec.Jobs = min(spec.Jobs, 2)
		}
		use := stream
		touches := false
		for k := range damaged {
			if k >= from && k < to {
				touches = true
			}
		}
		if len(damaged) > 0 && !touches {
			use = dstream
			res.Probes["range.avoiding.damaged.blocks"]++
		}
		lo, hi := len(data), len(data)
		if from <= nblocks {
			lo = (from - 1) * B
		}
		if to <= nblocks {
			hi = (to - 1) * B
		}
		want := data[lo:hi]
		ro := simDecode(c, res, sim.Hooks{}, spec, use, sizes, 0, len(data)+2*B+64)
		ranges++
		if res.Verdict == "fail" {
			res.Detail = fmt.Sprintf("range [%d,%d): %s", from, to, res.Detail)
			return res
		}
		if ro.NewErr != nil || ro.Panic != nil {
			return res.fail("reader-broken", "range [%d,%d): constructor error %v / panic %v", from, to, ro.NewErr, ro.Panic)
		}
		if !isEOF(ro.Err) {
			return res.fail("range-error", "range [%d,%d) of %d blocks, decoder jobs %d: read failed after %d bytes: %v", from, to, nblocks, spec.Jobs, len(ro.Data), ro.Err)
		}
		if d := diffAt(ro.Data, want); d >= 0 {
			return res.fail("range-mismatch", "range [%d,%d) of %d blocks (block size %d), decoder jobs %d: got %d bytes, want %d (bytes %d..%d of the original); first difference at %d", from, to, nblocks, B, spec.Jobs, len(ro.Data), len(want), lo, hi, d)
		}
		if from == to {
			res.Probes["range.empty"]++
		}
		if from > nblocks {
			res.Probes["range.beyond.end"]++
		}
		if (to-from) > 0 && from-1 >= spec.Jobs {
			res.Probes["batch.all.skipped"]++
		}
		return nil
	}
	if nblocks <= 14 {
		for from := 1; from <= nblocks+3; from++ {
			for to := from; to <= nblocks+3; to++ {
				if r := try(from, to); r != nil {
					return r
				}
			}
		}
	} else {
		// many blocks: sampled ranges, aimed at the last blocks, at the 63-block limit of the declared
		// size and at whole-stream ranges
		res.Probes["range.sampled.many.blocks"]++
		for k := 0; k < 14; k++ {
			var from, to int
			switch k % 5 {
			case 0:
				from = 1 + t.Intn(nblocks)
				to = from + t.Intn(nblocks+3-from+1)
			case 1:
				from = max(1, nblocks-t.Intn(12))
				to = from + t.Intn(nblocks+3-from+1)
			case 2:
				from = max(1, min(nblocks, 58+t.Intn(10)))
				to = min(nblocks+2, from+1+t.Intn(12))
			case 3:
				from, to = 1, nblocks+1-t.Intn(3)
			default:
				from = 1 + t.Intn(nblocks)
				to = from + 1 + t.Intn(3)
			}
			if r := try(from, to); r != nil {
				return r
			}
		}
	}
	// bounds far beyond the last block ("to the end" sentinels of callers, values that do not fit
	// 32 bits): same slices as with to = nblocks+1, empty when from is that large
	far := []int{math.MaxInt32, 1 << 31, 1<<32 + 3, 1 << 40, math.MaxInt}
	for k := 0; k < 3; k++ {
		from := 1 + t.Intn(nblocks+1)
		if k == 2 {
			from = far[t.Intn(len(far)-1)]
		}
		to := far[t.Intn(len(far))]
		if to < from {
			to = from
		}
		if r := try(from, to); r != nil {
			return r
		}
		res.Probes["range.far.bound"]++
	}
	res.Probes["ranges"] += ranges
	res.NonTriv = ranges > 1
	return res
}

// ---------------------------------------------------------------- C06

// C06: transparent to I/O granularity on both sides.
func C06(c *Case) *Result {
	res := newResult(c)
	t := c.Tape
	cfg, data, stream, _, ok := validStream(c, res, GenOpts{SkipOpt: true, Cheap: t.Intn(4) != 0, MaxJobs: 4, MaxBlock: 16384, ExactHint: true, Headerless: true},
		func(cfg Config) int { return min(2*cfg.DecJobs+2, 8) })
	if !ok {
		return res
	}
	// reference: one-piece decode without simulation
	ref := plainDecompress(cfg.readerSpec(), stream)
	if !isEOF(ref.Err) || diffAt(ref.Data, data) >= 0 {
		res.Verdict = "skip"
		res.Detail = "the stream does not round-trip in one piece (C01's business)"
		return res
	}
	side := t.Pick(3, 1)
	res.Render["side"] = []string{"short reads + Read sizes", "Write partitions"}[side]
	if side == 1 {
		// all partitions of the plain data into Write calls: sink bytes identical
		pieces := GenPartition(t, len(data), cfg.BlockSize)
		if t.Intn(3) == 0 && len(data) <= 20000 {
			pieces = pieces[:0]
			for i := 0; i < len(data); i++ {
				pieces = append(pieces, 1)
				if t.Intn(50) == 0 {
					pieces = append(pieces, 0)
				}
			}
			res.Probes["write.1byte"]++
		}
		var wo WOutcome
		var got []byte
		s := sim.Run(t, sim.Options{KeepTrace: c.KeepTrace}, func(env *sim.Env) {
			sink := sim.NewSimSink(env.S, "out")
			wo = Compress(cfg, data, pieces, sink)
			got = sink.Data
		})
		res.absorb(s)
		res.NonTriv = true
		if res.Verdict == "fail" {
			return res
		}
		if wo.Err() != nil {
			return res.fail("split-write-error", "%d Write calls: %s failed: %v (one Write of the same data succeeds)", len(pieces), wo.FirstFail, wo.Err())
		}
		if d := diffAt(got, stream); d >= 0 {
			return res.fail("split-write-differs", "%d Write calls: sink bytes differ from the single-Write stream at byte %d", len(pieces), d)
		}
		return res
	}

	// short reads on the compressed side
	mode := t.Pick(3, 3, 2, 2)
	if c.Neutralise == "F1" {
		mode = -1
	}
	konst := 1 + t.Intn(24)
	res.Render["short_read_mode"] = mode
	res.Render["short_read_const"] = konst
	cfg.RBuf = GenBuf(t)
	hooks := sim.Hooks{OnIO: func(s *sim.Sched, ti *sim.TaskInfo, obj, op string, k, n int) sim.IOAction {
		if op != "read" || n <= 1 {
			return sim.IOAction{}
		}
		var l int
		switch mode {
		case -1:
			return sim.IOAction{}
		case 0:
			l = konst
		case 1:
			l = 1 + s.Tape.Intn(min(n, 40))
		case 2:
			switch s.Tape.Intn(4) {
			case 0:
				l = 1
			case 1:
				l = 1 + s.Tape.Intn(7)
			case 2:
				l = n - 1 - s.Tape.Intn(min(8, n-1))
			default:
				l = 1 + s.Tape.Intn(n)
			}
		default:
			// mostly full reads, now and then a short one (pipes)
			if s.Tape.Intn(4) != 0 {
				return sim.IOAction{}
			}
			l = 1 + s.Tape.Intn(n)
		}
		if l < n {
			s.Fault("src.short")
			if l%8 != 0 {
				s.Probe("src.short.not.multiple.of.8")
			}
		}
		return sim.IOAction{N: l}
	}}
	sizes := readSizes(t, cfg.BlockSize)
	if t.Intn(4) == 0 {
		sizes = append(sizes, 0, 1, 0)
	}
	res.Render["read_sizes"] = headInts(sizes, 16)
	ro := simDecode(c, res, hooks, cfg.readerSpec(), stream, sizes, 0, len(data)+2*cfg.BlockSize+64)
	res.NonTriv = true
	if res.Verdict == "fail" {
		return res
	}
	if ro.NewErr != nil || ro.Panic != nil {
		return res.fail("reader-broken", "constructor error %v / panic %v", ro.NewErr, ro.Panic)
	}
	if !isEOF(ro.Err) {
		res.feat("short-reads")
		return res.fail("short-read-error", "the same bytes delivered in short reads make decoding fail after %d of %d bytes: %v (decodes fine in one piece)", len(ro.Data), len(data), ro.Err)
	}
	if d := diffAt(ro.Data, data); d >= 0 {
		res.feat("short-reads")
		return res.fail("short-read-mismatch", "the same bytes delivered in short reads decode to different data (first difference at byte %d)", d)
	}
	return res
}
