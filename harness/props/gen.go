package props

import (
	"fmt"
	"strings"

	"github.com/flanglet/kanzi-go/v2/verifharness/sim"
)

// Transforms / entropy codecs by their published names.
var TransformNames = []string{"NONE", "LZ", "RLT", "ZRLT", "PACK", "MTFT", "RANK", "SRT", "LZP", "LZX", "ROLZ", "BWT", "BWTS", "TEXT", "UTF", "MM", "EXE", "DNA", "ROLZX"}
var EntropyNames = []string{"NONE", "HUFFMAN", "ANS0", "RANGE", "FPAQ", "ANS1", "CM", "TPAQ", "TPAQX"}

// cheapTransforms / cheapEntropy are weighted up when the codec is not the thing under test.
var cheapTransforms = []string{"NONE", "LZ", "RLT", "ZRLT", "PACK", "LZP", "MTFT"}
var cheapEntropy = []string{"NONE", "HUFFMAN", "ANS0", "FPAQ", "RANGE"}

// Config is one compressor configuration.
type Config struct {
	Transform  string `json:"transform"`
	Entropy    string `json:"entropy"`
	BlockSize  int    `json:"blockSize"`
	Jobs       int    `json:"jobs"`
	Checksum   int    `json:"checksum"`
	Hint       string `json:"hint"` // absent, exact, smaller, larger
	HintValue  int64  `json:"hintValue"`
	Headerless bool   `json:"headerless"`
	DecJobs    int    `json:"decJobs"`
	BigParam   bool   `json:"-"`
	SkipBlocks bool   `json:"skipBlocks,omitempty"` // writer option: store incompressible blocks verbatim
	WBuf       int    `json:"wbuf,omitempty"`       // shared output bitstream buffer (0 = library default)
	RBuf       int    `json:"rbuf,omitempty"`       // shared input bitstream buffer (0 = library default)
}

// GenBuf draws a bitstream buffer size (multiple of 8, >= 1024); 0 = default.
func GenBuf(t *sim.Tape) int {
	switch t.Pick(3, 3, 2, 1) {
	case 1:
		return 1024
	case 2:
		return 1024 + 8*t.Intn(1024)
	case 3:
		return 65536
	}
	return 0
}

func (c Config) Sig() string {
	sk := ""
	if c.SkipBlocks {
		sk = "/skip"
	}
	return fmt.Sprintf("%s/%s/b%d/j%d/c%d/%s/h%v/d%d%s", strings.ToUpper(c.Transform), strings.ToUpper(c.Entropy), c.BlockSize, c.Jobs, c.Checksum, c.Hint, c.Headerless, c.DecJobs, sk)
}

// CodecSig identifies the codec pair only.
func (c Config) CodecSig() string {
	return strings.ToUpper(c.Transform) + "/" + strings.ToUpper(c.Entropy)
}

// GenOpts steer configuration generation.
type GenOpts struct {
	Cheap        bool // weight cheap codecs up (schedule-focused properties)
	MaxJobs      int
	MaxBlock     int  // largest block size
	AllowHuge    bool // allow multi-MiB blocks at low rate
	NoHint       bool // never give a size hint
	ExactHint    bool // only absent or exact hints
	Checksummed  bool // force checksum 32/64
	NoChecksum   bool
	Headerless   bool // allow headerless
	MixedCase    bool // allow lower/mixed case names
	MaxChain     int
	SkipOpt      bool // allow the skipBlocks writer option
	BigParam     bool // allow large block-size parameters (with little data)
	LongChains   bool // allow chains of 5-8 rarely declining transforms
	Geometry     bool // allow the special batch geometries (many blocks / big blocks)
	LegacyWriter bool // let a sixth of the streams be written by the pinned reference encoder
	BigBWT       bool // a few streams with BWT blocks above 4 MiB (helper goroutines of the inverse)
}

func jobsDraw(t *sim.Tape, max int) int {
	if max <= 1 {
		return 1
	}
	// 1 is the simple choice; small counts are common; up to max
	switch t.Pick(3, 6, 3, 1) {
	case 0:
		return 1
	case 1:
		return t.Range(2, min(4, max))
	case 2:
		return t.Range(2, min(8, max))
	default:
		return t.Range(2, max)
	}
}

func caseVariant(t *sim.Tape, name string) string {
	switch t.Pick(6, 1, 1) {
	case 1:
		return strings.ToLower(name)
	case 2:
		b := []byte(strings.ToLower(name))
		for i := range b {
			if t.Intn(2) == 1 && b[i] >= 'a' && b[i] <= 'z' {
				b[i] -= 32
			}
		}
		return string(b)
	}
	return name
}

// GenConfig draws a configuration.
func GenConfig(t *sim.Tape, o GenOpts) Config {
	var c Config
	if o.MaxJobs == 0 {
		o.MaxJobs = 8
	}
	if o.MaxBlock == 0 {
		o.MaxBlock = 64 * 1024
	}
	if o.MaxChain == 0 {
		o.MaxChain = 8
	}

	pickT := func() string {
		if o.Cheap && t.Intn(16) != 15 {
			return cheapTransforms[t.Intn(len(cheapTransforms))]
		}
		return TransformNames[t.Intn(len(TransformNames))]
	}

	// chain length: 1 is simple
	n := 1
	switch t.Pick(6, 3, 2, 1) {
	case 1:
		n = 2
	case 2:
		n = 3 + t.Intn(2)
	case 3:
		n = 5 + t.Intn(4)
	}
	if n > o.MaxChain {
		n = 1 + (n-1)%o.MaxChain
	}
	parts := make([]string, n)
	for i := range parts {
		parts[i] = pickT()
		if o.MixedCase {
			parts[i] = caseVariant(t, parts[i])
		}
	}
	c.Transform = strings.Join(parts, "+")

	if o.Cheap {
		// TPAQ/TPAQX allocate 20-80 MiB per block task: never in schedule-focused runs
		if t.Intn(16) != 15 {
			c.Entropy = cheapEntropy[t.Intn(len(cheapEntropy))]
		} else {
			c.Entropy = "CM"
		}
	} else {
		c.Entropy = EntropyNames[t.Intn(len(EntropyNames))]
		if c.Entropy == "TPAQ" || c.Entropy == "TPAQX" {
			// 20-80 MiB of tables per block task: keep them at about 5% of the cases
			c.Entropy = EntropyNames[t.Intn(len(EntropyNames))]
		}
	}
	if o.MixedCase {
		c.Entropy = caseVariant(t, c.Entropy)
	}

	// block size: 1024 is the simple choice; multiples of 16
	switch t.Pick(4, 4, 2) {
	case 0:
		c.BlockSize = 1024
	case 1:
		c.BlockSize = 1024 + 16*t.Intn((8192-1024)/16+1)
	default:
		c.BlockSize = 1024 + 16*t.Intn((o.MaxBlock-1024)/16+1)
	}

	c.Jobs = jobsDraw(t, o.MaxJobs)
	c.DecJobs = jobsDraw(t, o.MaxJobs)

	if o.BigParam && t.Intn(10) == 9 {
		// the block size is also a parameter of the codecs (hash and table sizes, thresholds):
		// large values with little data are cheap to run
		c.BlockSize = []int{128, 256, 512, 1024, 2048, 4096}[t.Intn(6)]*1024 + 16*t.Intn(3)
		c.Jobs = min(c.Jobs, 2)
		c.DecJobs = min(c.DecJobs, 2)
		c.BigParam = true
	}
	if o.LongChains && t.Intn(20) == 19 {
		// chains of 5-8 stages made of transforms that apply to almost any block (second skip-flags byte)
		never := []string{"BWT", "RANK", "MTFT", "BWTS", "SRT", "RANK", "MTFT"}
		k := 5 + t.Intn(4)
		if t.Intn(2) == 0 {
			k = 8
		}
		parts := make([]string, k)
		for i := range parts {
			parts[i] = never[t.Intn(len(never))]
			if i > 0 && parts[i] == "SRT" && parts[i-1] == "SRT" {
				parts[i] = "RANK"
			}
		}
		c.Transform = strings.Join(parts, "+")
		c.BlockSize = max(c.BlockSize, 4096)
	}

	switch {
	case o.Checksummed:
		c.Checksum = []int{32, 64}[t.Intn(2)]
	case o.NoChecksum:
		c.Checksum = 0
	default:
		c.Checksum = []int{0, 32, 64}[t.Intn(3)]
	}

	c.Hint = "absent"
	if !o.NoHint {
		if o.ExactHint {
			c.Hint = []string{"absent", "exact"}[t.Intn(2)]
		} else {
			c.Hint = []string{"absent", "exact", "smaller", "larger"}[t.Pick(3, 3, 1, 1)]
		}
	}

	if o.Headerless && t.Intn(6) == 5 {
		c.Headerless = true
	}
	if o.SkipOpt && t.Intn(8) == 7 {
		c.SkipBlocks = true
	}

	return c
}

// ---------------------------------------------------------------- data shapes

var ShapeNames = []string{"zeros", "text", "prose", "random", "runs", "skewed", "rare+dominant", "smallalpha", "utf8", "dna", "exe", "wav", "bmp", "numeric", "mixed", "base64", "periodic"}

var words = strings.Fields(`the of and to in is was that for it with as his on be at by had not are but from or have an they which one you were her all she there would their we him been has when who will more no if out so said what up its about into than them can only other new some could time these two may then do first any my now such like our over man me even most made after also did many before must through back years where much your way well down should because each just those people how too little state good very make world still own see men work long get here between both life being under never day same another know while last might us great old year off come since against go came right used take three`)

// GenData produces n bytes of the given shape from a sub-seed (off tape).
func GenData(shape string, n int, seed uint64) []byte {
	r := sim.NewSplitMix(seed ^ sim.HashString(shape))
	b := make([]byte, 0, n+64)

	switch shape {
	case "zeros":
		b = make([]byte, n)
	case "text":
		for len(b) < n {
			w := words[r.Intn(len(words))]
			if r.Intn(12) == 0 {
				w = strings.ToUpper(w[:1]) + w[1:]
			}
			b = append(b, w...)
			switch r.Intn(20) {
			case 0:
				b = append(b, '.', '\r', '\n')
			case 1:
				b = append(b, ',', ' ')
			case 2:
				b = append(b, '\n')
			default:
				b = append(b, ' ')
			}
		}
	case "prose":
		// text with many words that are in no static dictionary (pseudo-words from syllables,
		// identifiers, numbers) mixed with common words, sentence structure and line breaks
		syl := []string{"ka", "zor", "mi", "ben", "tu", "ral", "she", "qui", "vor", "an", "del", "pho", "gra", "xen", "lum", "tis", "wy", "ock", "ez", "ump"}
		var lex []string
		for i := 0; i < 300+r.Intn(3000); i++ {
			w := ""
			for k := 0; k < 1+r.Intn(4); k++ {
				w += syl[r.Intn(len(syl))]
			}
			lex = append(lex, w)
		}
		for len(b) < n {
			var w string
			switch r.Intn(10) {
			case 0, 1, 2, 3:
				w = words[r.Intn(len(words))]
			case 4:
				w = fmt.Sprintf("%s_%d", lex[r.Intn(len(lex))], r.Intn(100))
			default:
				// zipf-like reuse of the private lexicon
				w = lex[(r.Intn(len(lex))*r.Intn(len(lex)))/len(lex)]
			}
			if r.Intn(9) == 0 {
				w = strings.ToUpper(w[:1]) + w[1:]
			}
			b = append(b, w...)
			switch r.Intn(16) {
			case 0:
				b = append(b, '.', ' ')
			case 1:
				b = append(b, ',', ' ')
			case 2:
				b = append(b, '\n')
			case 3:
				b = append(b, '.', '\r', '\n', '\r', '\n')
			default:
				b = append(b, ' ')
			}
		}
	case "random":
		for len(b) < n {
			v := r.Next()
			for k := 0; k < 8; k++ {
				b = append(b, byte(v>>(8*k)))
			}
		}
	case "runs":
		for len(b) < n {
			c := byte(r.Intn(6))
			if r.Intn(3) == 0 {
				c = byte(r.Intn(256))
			}
			l := 1 + r.Intn(1+r.Intn(300))
			for k := 0; k < l; k++ {
				b = append(b, c)
			}
		}
	case "skewed":
		for len(b) < n {
			v := r.Intn(1 << 16)
			k := 0
			for v&1 == 1 && k < 15 {
				v >>= 1
				k++
			}
			b = append(b, byte(k*7))
		}
	case "rare+dominant":
		// k rare symbols + m dominant ones: stresses frequency scaling
		m := 1 + r.Intn(3)
		k := 1 + r.Intn(250)
		period := 50 + r.Intn(4000)
		for len(b) < n {
			if r.Intn(period) == 0 {
				b = append(b, byte(10+r.Intn(k)))
			} else {
				b = append(b, byte(r.Intn(m)))
			}
		}
	case "smallalpha":
		// alphabet sizes around the powers of two that packing codecs switch on (2, 4, 16), and others
		k := []int{2, 3, 4, 5, 8, 15, 16, 16, 17, 2 + r.Intn(30)}[r.Intn(10)]
		for len(b) < n {
			b = append(b, byte('a'+r.Intn(k)))
		}
	case "utf8":
		// mostly 2-4 byte sequences from a few scripts
		bases := []rune{0x0400, 0x0370, 0x4E00, 0x3040, 0x1F600, 0x0600}
		base := bases[r.Intn(len(bases))]
		for len(b) < n {
			var c rune
			switch r.Intn(10) {
			case 0:
				c = ' '
			case 1:
				c = rune('a' + r.Intn(26))
			case 2:
				c = bases[r.Intn(len(bases))] + rune(r.Intn(64))
			default:
				c = base + rune(r.Intn(96))
			}
			b = append(b, string(c)...)
		}
	case "dna":
		line := 0
		for len(b) < n {
			if r.Intn(5000) == 0 {
				b = append(b, 'N')
			} else {
				b = append(b, "ACGT"[r.Intn(4)])
			}
			line++
			if line == 60 && r.Intn(2) == 0 {
				b = append(b, '\n')
				line = 0
			}
		}
	case "exe":
		// ELF-like header followed by x86-ish code: call/jmp rel32 with clustered targets
		// executable-looking header (fields are arbitrary: a header is data, not a promise)
		switch r.Intn(6) {
		case 0:
			b = append(b, 0x7F, 'E', 'L', 'F', 2, 1, 1, 0, 0, 0, 0, 0, 0, 0, 0, 0)
		case 1:
			b = append(b, 0x7F, 'E', 'L', 'F', 1, 1, 1, 0, 0, 0, 0, 0, 0, 0, 0, 0)
		case 2:
			b = append(b, 0x7F, 'E', 'L', 'F', 2, 2, 1, 0, 0, 0, 0, 0, 0, 0, 0, 0)
		case 3:
			b = append(b, 'M', 'Z', 0x90, 0, 3, 0, 0, 0, 4, 0, 0, 0, 0xFF, 0xFF, 0, 0)
		case 4:
			b = append(b, 0xCF, 0xFA, 0xED, 0xFE, 7, 0, 0, 1, 3, 0, 0, 0, 2, 0, 0, 0)
		default:
			b = append(b, 0xFE, 0xED, 0xFA, 0xCE, 0, 0, 0, 7, 0, 0, 0, 3, 2, 0, 0, 0)
		}
		if r.Intn(2) == 0 {
			// plausible small header fields
			for len(b) < 96 && len(b) < n {
				b = append(b, byte(r.Intn(4)*r.Intn(64)))
			}
		}
		for len(b) < n {
			switch r.Intn(6) {
			case 0:
				off := r.Intn(1<<20) - (1 << 19)
				b = append(b, 0xE8, byte(off), byte(off>>8), byte(off>>16), byte(off>>24))
			case 1:
				off := r.Intn(4096) - 2048
				b = append(b, 0xE9, byte(off), byte(off>>8), byte(off>>16), byte(off>>24))
			case 2:
				b = append(b, 0x0F, 0x84, byte(r.Intn(256)), byte(r.Intn(4)), 0, 0)
			case 3:
				b = append(b, 0x48, 0x89, byte(0xC0+r.Intn(64)))
			case 4:
				b = append(b, 0x8B, 0x45, byte(r.Intn(256)))
			default:
				b = append(b, 0x55, 0x48, 0x8B, 0xEC, 0x90, 0xC3)
			}
		}
	case "wav":
		b = append(b, "RIFF"...)
		b = append(b, byte(n), byte(n>>8), byte(n>>16), 0)
		b = append(b, "WAVEfmt "...)
		b = append(b, 16, 0, 0, 0, 1, 0, 2, 0, 0x44, 0xAC, 0, 0, 0x10, 0xB1, 2, 0, 4, 0, 16, 0)
		b = append(b, "data"...)
		b = append(b, byte(n), byte(n>>8), byte(n>>16), 0)
		l, rr := 0, 0
		for len(b) < n {
			l += r.Intn(401) - 200
			rr += r.Intn(401) - 200
			b = append(b, byte(l), byte(l>>8), byte(rr), byte(rr>>8))
		}
	case "bmp":
		b = append(b, 'B', 'M', byte(n), byte(n>>8), byte(n>>16), 0, 0, 0, 0, 0, 54, 0, 0, 0, 40, 0, 0, 0, 64, 0, 0, 0, 64, 0, 0, 0, 1, 0, 24, 0)
		for len(b) < 54 {
			b = append(b, 0)
		}
		p := [3]int{100, 120, 140}
		for len(b) < n {
			for k := 0; k < 3; k++ {
				p[k] += r.Intn(7) - 3
				b = append(b, byte(p[k]))
			}
		}
	case "numeric":
		for len(b) < n {
			b = append(b, fmt.Sprintf("%d", r.Intn(100000))...)
			b = append(b, ",\n "[r.Intn(3)])
		}
	case "base64":
		const al = "ABCDEFGHIJKLMNOPQRSTUVWXYZabcdefghijklmnopqrstuvwxyz0123456789+/"
		line := 0
		for len(b) < n {
			b = append(b, al[r.Intn(64)])
			line++
			if line == 76 {
				b = append(b, '\r', '\n')
				line = 0
			}
		}
	case "periodic":
		p := 1 + r.Intn(40)
		pat := make([]byte, p)
		for i := range pat {
			pat[i] = byte(r.Intn(256))
		}
		for len(b) < n {
			b = append(b, pat...)
			if r.Intn(50) == 0 {
				b = append(b, byte(r.Intn(256)))
			}
		}
	case "mixed":
		for len(b) < n {
			sh := ShapeNames[r.Intn(len(ShapeNames)-3)]
			if sh == "mixed" {
				sh = "text"
			}
			seg := 1 + r.Intn(1+n/3)
			b = append(b, GenData(sh, seg, r.Next())...)
		}
	default:
		panic("unknown shape " + shape)
	}

	return b[:n]
}

// DataRecipe describes plain data drawn from the tape.
type DataRecipe struct {
	Shape string `json:"shape"`
	Len   int    `json:"len"`
	Seed  uint64 `json:"seed"`
	// Stride > 0: a well-known file signature is stamped at most multiples of Stride (the block
	// size), so that blocks other than the first begin like a file of some type
	Stride int `json:"stride,omitempty"`
}

// fileSignatures are the leading bytes of common file formats (public knowledge, not taken from the code).
var fileSignatures = []string{"BM", "MZ", "\x1f\x8b\x08", "PK\x03\x04", "\x89PNG\r\n\x1a\n", "RIFF", "\x7fELF", "\xff\xd8\xff\xe0", "BZh9", "GIF89a", "%PDF-1.", "7z\xbc\xaf\x27\x1c", "\xfd7zXZ\x00", "\x28\xb5\x2f\xfd", "\xca\xfe\xba\xbe", "\xcf\xfa\xed\xfe"}

func (d DataRecipe) Bytes() []byte {
	b := GenData(d.Shape, d.Len, d.Seed)
	if d.Stride > 0 {
		r := sim.NewSplitMix(d.Seed ^ 0x5167)
		for off := 0; off < len(b); off += d.Stride {
			if r.Intn(3) == 0 {
				continue
			}
			sig := fileSignatures[r.Intn(len(fileSignatures))]
			copy(b[off:], sig)
		}
	}
	return b
}

// GenDataRecipe draws a recipe: length relative to the block size.
func GenDataRecipe(t *sim.Tape, blockSize int, maxBlocks int) DataRecipe {
	if blockSize > 100000 {
		// large block-size parameter: keep the data small (the parameter is what is under test)
		d := DataRecipe{Shape: ShapeNames[t.Intn(len(ShapeNames))], Len: 1000 + t.Intn(120000), Seed: t.Seed()}
		return d
	}
	var d DataRecipe
	d.Shape = ShapeNames[t.Intn(len(ShapeNames))]
	switch t.Pick(2, 8, 2, 1, 1) {
	case 0:
		d.Len = t.Intn(64) // tiny, including 0 and <= 15
	case 1:
		d.Len = t.Intn(maxBlocks*blockSize + 1)
	case 2:
		d.Len = blockSize * t.Range(1, maxBlocks) // exactly N blocks
	case 3:
		d.Len = blockSize*t.Range(1, maxBlocks) + t.Range(-16, 16)
	case 4:
		d.Len = blockSize + t.Intn(17)
	}
	if d.Len < 0 {
		d.Len = 0
	}
	d.Seed = t.Seed()
	if t.Intn(8) == 0 {
		d.Stride = blockSize
	}
	return d
}

// GenPartition splits n into piece lengths (Write or Read call sizes).
func GenPartition(t *sim.Tape, n int, blockSize int) []int {
	var ps []int
	mode := t.Pick(4, 2, 2, 1, 1)
	rem := n
	for rem > 0 && len(ps) < 4096 {
		var l int
		switch mode {
		case 0:
			l = rem // one piece
		case 1:
			l = 1 + t.Intn(2*blockSize)
		case 2:
			l = blockSize
		case 3:
			l = 1 + t.Intn(17)
			if len(ps) > 200 {
				l = rem
			}
		default:
			switch t.Intn(4) {
			case 0:
				l = 0
			case 1:
				l = 1
			case 2:
				l = blockSize - 1 + t.Intn(3)
			default:
				l = 1 + t.Intn(rem)
			}
		}
		if l > rem {
			l = rem
		}
		ps = append(ps, l)
		rem -= l
	}
	if rem > 0 {
		ps = append(ps, rem)
	}
	return ps
}

// Geometry overrides block size / data length with one of the special batch
// geometries that ordinary sampling hardly reaches: very many small blocks
// (the block count derived from the size hint is capped at 63, the job count at
// 64) or blocks larger than the 256 KiB minimum buffer. The codecs are forced to
// cheap ones so that these cases stay affordable. Returns "" when the ordinary
// geometry is kept.
func Geometry(t *sim.Tape, cfg *Config, rec *DataRecipe, thorough bool) string {
	switch t.Pick(22, 2, 1) {
	case 1:
		cfg.BlockSize = 1024
		if t.Intn(4) == 0 {
			cfg.BlockSize = 1024 + 16*t.Intn(64)
		}
		var nb int
		switch t.Intn(4) {
		case 0:
			nb = 62 + t.Intn(5) // around the 63-block cap
		case 1:
			nb = 126 + t.Intn(5)
		case 2:
			nb = 64
		default:
			nb = 60 + t.Intn(90)
		}
		rec.Len = nb*cfg.BlockSize - t.Intn(cfg.BlockSize)
		if t.Intn(3) == 0 {
			rec.Len = nb * cfg.BlockSize
		}
		cfg.Transform = cheapTransforms[t.Intn(3)]
		cfg.Entropy = cheapEntropy[t.Intn(2)]
		return "manyblocks"
	case 2:
		hi := 1 << 20
		if thorough {
			hi = 3 << 20
		}
		cfg.BlockSize = 256*1024 + 16*t.Intn((hi-256*1024)/16)
		rec.Len = cfg.BlockSize/4 + t.Intn(2*cfg.BlockSize)
		cfg.Transform = []string{"NONE", "LZ", "RLT", "LZP"}[t.Intn(4)]
		cfg.Entropy = []string{"NONE", "HUFFMAN"}[t.Intn(2)]
		cfg.Jobs = min(cfg.Jobs, 4)
		cfg.DecJobs = min(cfg.DecJobs, 4)
		if t.Intn(3) == 0 {
			// chains whose worst-case output exceeds the per-task buffer (the encoder then enlarges
			// its buffers on the fly), three or four blocks so that a batch has neighbours
			cfg.Transform = []string{"EXE+LZX", "TEXT+UTF+EXE+PACK+MM+ROLZ", "EXE+RLT+TEXT+UTF+DNA", "EXE+LZ", "RLT+EXE+LZP"}[t.Intn(5)]
			cfg.BlockSize = 256*1024 + 16*t.Intn(16*1024)
			rec.Len = 2*cfg.BlockSize + t.Intn(2*cfg.BlockSize)
			cfg.Jobs = 3 + t.Intn(2)
			rec.Shape = []string{"exe", "mixed", "text", "random"}[t.Intn(4)]
		}
		return "bigblock"
	}
	return ""
}
