package props

import (
	"bytes"
	"io"

	rio "github.com/flanglet/kanzi-go/v2/verifharness/ref/io"
)

// RefCompress runs the frozen reference Writer (pinned snapshot, plain goroutines).
func RefCompress(cfg Config, data []byte) (stream []byte, err error) {
	defer func() {
		if r := recover(); r != nil {
			err = io.ErrUnexpectedEOF
		}
	}()
	var buf bytes.Buffer
	var w *rio.Writer
	if cfg.SkipBlocks {
		ctx := map[string]any{"entropy": cfg.Entropy, "transform": cfg.Transform, "blockSize": uint(cfg.BlockSize), "jobs": uint(cfg.Jobs),
			"checksum": uint(cfg.Checksum), "fileSize": cfg.HintValue, "headerless": cfg.Headerless, "skipBlocks": true}
		w, err = rio.NewWriterWithCtx(nopCloser{&buf}, ctx)
	} else {
		w, err = rio.NewWriter(nopCloser{&buf}, cfg.Transform, cfg.Entropy, uint(cfg.BlockSize), uint(cfg.Jobs), uint(cfg.Checksum), cfg.HintValue, cfg.Headerless)
	}
	if err != nil {
		return nil, err
	}
	if _, err = w.Write(data); err != nil {
		w.Close()
		return nil, err
	}
	if err = w.Close(); err != nil {
		return nil, err
	}
	return buf.Bytes(), nil
}

// RefDecompress runs the frozen reference Reader with full reads.
func RefDecompress(cfg Config, stream []byte, jobs int) (out []byte, err error) {
	defer func() {
		if r := recover(); r != nil {
			err = io.ErrUnexpectedEOF
		}
	}()
	var rd *rio.Reader
	src := bytesSource{bytes.NewReader(stream)}
	if cfg.Headerless {
		rd, err = rio.NewHeaderlessReader(src, uint(jobs), cfg.Transform, cfg.Entropy, uint(cfg.BlockSize), uint(cfg.Checksum), cfg.HintValue, 6)
	} else {
		rd, err = rio.NewReader(src, uint(jobs))
	}
	if err != nil {
		return nil, err
	}
	defer rd.Close()
	buf := make([]byte, 65536)
	for {
		n, e := rd.Read(buf)
		out = append(out, buf[:n]...)
		if e == io.EOF {
			return out, nil
		}
		if e != nil {
			return out, e
		}
		if len(out) > 64<<20 {
			return out, io.ErrShortBuffer
		}
	}
}
