package sim

import (
	"io"
)

// SimSink is the simulated sink handed to the compressor. Every call is a
// yield point and a fault opportunity. Without an active simulation it is a
// plain growing buffer.
type SimSink struct {
	S      *Sched
	Name   string
	Data   []byte
	Writes int
	Closes int
	// Failed counts the calls that returned an error.
	Failed int
	// stuck makes every later call fail (permanent faults)
	stuck error
}

func NewSimSink(s *Sched, name string) *SimSink { return &SimSink{S: s, Name: name} }

func (k *SimSink) Write(p []byte) (int, error) {
	act := k.S.IO(k.Name, "write", len(p))
	k.Writes++
	switch act.Kind {
	case IOErr:
		k.Failed++
		return 0, act.Err
	case IOTorn:
		n := act.N
		if n > len(p) {
			n = len(p)
		}
		k.Data = append(k.Data, p[:n]...)
		k.Failed++
		return n, act.Err
	}
	k.Data = append(k.Data, p...)
	return len(p), nil
}

func (k *SimSink) Close() error {
	act := k.S.IO(k.Name, "close", 0)
	k.Closes++
	if act.Kind == IOErr {
		k.Failed++
		return act.Err
	}
	return nil
}

// SimSource is the simulated source handed to the decompressor.
type SimSource struct {
	S      *Sched
	Name   string
	Data   []byte
	Pos    int
	Reads  int
	Closes int
	Failed int
}

func NewSimSource(s *Sched, name string, data []byte) *SimSource {
	return &SimSource{S: s, Name: name, Data: data}
}

func (r *SimSource) Read(p []byte) (int, error) {
	act := r.S.IO(r.Name, "read", len(p))
	r.Reads++
	switch act.Kind {
	case IOErr:
		r.Failed++
		return 0, act.Err
	case IOEOF:
		return 0, io.EOF
	}
	rem := len(r.Data) - r.Pos
	n := len(p)
	if n > rem {
		n = rem
	}
	if act.N > 0 && n > act.N {
		n = act.N
	}
	if act.Kind == IOTorn {
		copy(p, r.Data[r.Pos:r.Pos+n])
		r.Pos += n
		r.Failed++
		return n, act.Err
	}
	if n == 0 && len(p) > 0 {
		return 0, io.EOF
	}
	copy(p, r.Data[r.Pos:r.Pos+n])
	r.Pos += n
	return n, nil
}

func (r *SimSource) Close() error {
	act := r.S.IO(r.Name, "close", 0)
	r.Closes++
	if act.Kind == IOErr {
		r.Failed++
		return act.Err
	}
	return nil
}

// wrapSink / wrapSource put a real io object behind the simulator (CLI).
type wrapSink struct {
	s *Sched
	w io.WriteCloser
}

func (k *wrapSink) Write(p []byte) (int, error) {
	act := k.s.IO("out", "write", len(p))
	switch act.Kind {
	case IOErr:
		return 0, act.Err
	case IOTorn:
		n := act.N
		if n > len(p) {
			n = len(p)
		}
		m, err := k.w.Write(p[:n])
		if err != nil {
			return m, err
		}
		return m, act.Err
	}
	return k.w.Write(p)
}

func (k *wrapSink) Close() error {
	act := k.s.IO("out", "close", 0)
	if act.Kind == IOErr {
		return act.Err
	}
	return k.w.Close()
}

type wrapSource struct {
	s *Sched
	r io.ReadCloser
}

func (k *wrapSource) Read(p []byte) (int, error) {
	act := k.s.IO("in", "read", len(p))
	switch act.Kind {
	case IOErr:
		return 0, act.Err
	case IOEOF:
		return 0, io.EOF
	}
	if act.N > 0 && act.N < len(p) {
		p = p[:act.N]
	}
	return k.r.Read(p)
}

func (k *wrapSource) Close() error {
	act := k.s.IO("in", "close", 0)
	if act.Kind == IOErr {
		return act.Err
	}
	return k.r.Close()
}
