//go:build !race

package sim

const RaceEnabled = false

func raceDisable() {}
func raceEnable()  {}
