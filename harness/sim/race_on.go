//go:build race

package sim

import "runtime"

const RaceEnabled = true

func raceDisable() { runtime.RaceDisable() }
func raceEnable()  { runtime.RaceEnable() }
