package sim

import (
	"errors"
	"fmt"
	"io"
	"runtime/debug"
	"strings"
	"time"

	"github.com/flanglet/kanzi-go/v2/internal/simhook"
)

// Event is one entry of the simulation trace. Seq is the logical clock.
type Event struct {
	Seq  int    `json:"seq"`
	Task int    `json:"task"`
	Name string `json:"name"`
	A    int64  `json:"a"`
	B    int64  `json:"b"`
}

type tstate uint8

const (
	tsNew     tstate = iota // spawned, never scheduled
	tsParked                // waiting at a yield point
	tsSpin                  // waiting at a spin yield point
	tsJoin                  // waiting for its children
	tsRunning               // holds the baton
	tsExited
)

// TaskInfo is the scheduler's view of one goroutine of the system under test.
type TaskInfo struct {
	Idx      int
	Parent   int
	Key      any
	BlockID  int // last block id reported by a hook of this task (0 = none)
	st       tstate
	arrived  bool
	reply    chan cmd
	children int
	waitWG   any // the WaitGroup this task waits for (tsJoin), nil = waits for its children
	seen     int32
	want     int32
	idle     bool // spinner that has re-loaded an unchanged value since the last non-spin event
	prio     int
	point    string

	pendingIO   IOAction
	pendingFail error
}

type cmdKind uint8

const (
	cmdGo cmdKind = iota
	cmdAbort
	cmdFail
)

type cmd struct {
	kind cmdKind
	err  error
	io   IOAction
	off  int
	xor  byte
	val  int
}

type mkind uint8

const (
	mSpawn mkind = iota
	mStart
	mExit
	mJoin
	mPoint
	mSpin
	mCorrupt
	mRecovered
	mIO
	mDraw
	mNote
	mQuery
	mDone
	mWGAdd
	mWGDone
	mWGWait
)

type msg struct {
	kind  mkind
	key   any
	name  string
	a, b  int64
	reply chan cmd
	text  string
	fn    func()
}

// IOKind says what a simulated sink/source call does.
type IOKind uint8

const (
	IOOk   IOKind = iota // serve the call (sources: at most N bytes if N > 0)
	IOErr                // return (0, Err); nothing stored / delivered
	IOTorn               // sink: store N < len bytes, return (N, Err); source: deliver N bytes together with Err
	IOEOF                // source: report io.EOF now (truncation)
)

// IOAction is the decision for one sink/source call.
type IOAction struct {
	Kind IOKind
	N    int
	Err  error
}

// Hooks are the property-specific callbacks; all run in the scheduler
// goroutine, strictly sequentially, and may draw from the tape.
type Hooks struct {
	// OnEvent sees every trace event (monitors). A non-nil error is a violation.
	OnEvent func(s *Sched, t *TaskInfo, ev *Event) error
	// OnPoint may return an error to inject: the hook panics with it in the task.
	OnPoint func(s *Sched, t *TaskInfo, name string, arg int) error
	// OnCorrupt may ask for one byte of a task-private buffer to be xored.
	OnCorrupt func(s *Sched, t *TaskInfo, site string, n int) (off int, xor byte, do bool)
	// OnIO decides the outcome of the k-th call (k from 0) of op on object obj.
	OnIO func(s *Sched, t *TaskInfo, obj string, op string, k int, n int) IOAction
}

// Policy is a scheduling policy.
type Policy int

const (
	PolLowest Policy = iota
	PolUniform
	PolSticky
	PolPCT
	PolNewest
	PolStarve
	numPolicies
)

func (p Policy) String() string {
	return [...]string{"lowest", "uniform", "sticky", "pct", "newest", "starve"}[p]
}

// Options configure one simulation.
type Options struct {
	MaxEvents int  // step budget (default 200000)
	KeepTrace bool // keep the full event list
	Hooks     Hooks
	// FixedPolicy, when >= 0, forces the policy (no draw).
	FixedPolicy Policy
	ForcePolicy bool
}

// Violation is a property-independent failure detected by the kernel or a monitor.
type Violation struct {
	Class  string `json:"class"`
	Detail string `json:"detail"`
	Seq    int    `json:"seq"`
}

// InjectedError is the error type of every injected failure.
type InjectedError struct{ What string }

func (e *InjectedError) Error() string { return "injected: " + e.What }

// ErrAbort is raised inside spinning tasks when a run is torn down.
var ErrAbort = errors.New("simulation aborted")

// Recovered describes one recovered panic inside the library.
type Recovered struct {
	Task int    `json:"task"`
	Text string `json:"text"`
	Site string `json:"site"`
}

// Sched is the scheduler. All its state is owned by the scheduler goroutine;
// tasks talk to it by message passing only.
type Sched struct {
	Tape *Tape
	opts Options

	msgs chan msg
	done chan struct{}

	tasks []*TaskInfo
	byKey map[any][]*TaskInfo // tasks by spawn key (several anonymous tasks may share one key)
	wgs   map[any]int         // WaitGroup counters as seen through the hooks
	// set when the root has finished while other tasks were still unwinding (aborted runs)
	rootDone   chan cmd
	rootDoneAt time.Time
	// hook calls received from goroutines that belong to no task of this simulation
	Foreign int
	cur     *TaskInfo
	live    int
	policy  Policy
	pctCh   []int
	victim  int
	last    int
	stick   int

	aborting bool
	ioCount  map[string]int
	onTick   func(s *Sched, t *TaskInfo, ev *Event)

	// results (read by the root after Run returned)
	Seq        int
	Trace      []Event
	Sig        uint64
	Viol       *Violation
	Recovereds []Recovered
	Faults     map[string]int
	Probes     map[string]int
	MaxLive    int
	Tasks      int
	Decisions  int
	Notes      []string
}

const defaultMaxEvents = 200000

// Env is what the body of a simulation sees.
type Env struct {
	S *Sched
}

// Run executes body as the root task of a fresh simulation. The calling
// goroutine is the root task. Everything the library spawns through simhook
// becomes a task whose scheduling is decided by the tape.
func Run(tape *Tape, opts Options, body func(env *Env)) *Sched {
	if opts.MaxEvents == 0 {
		opts.MaxEvents = defaultMaxEvents
	}

	s := &Sched{Tape: tape, opts: opts, msgs: make(chan msg), done: make(chan struct{}),
		byKey: map[any][]*TaskInfo{}, wgs: map[any]int{}, ioCount: map[string]int{}, Faults: map[string]int{}, Probes: map[string]int{}}
	root := &TaskInfo{Idx: 0, Parent: -1, st: tsRunning, arrived: true}
	s.tasks = append(s.tasks, root)
	s.cur = root
	s.live = 1
	s.Tasks = 1

	if opts.ForcePolicy {
		s.policy = opts.FixedPolicy
	} else {
		// lowest-first is the simple choice; the others share the rest
		s.policy = Policy(tape.Pick(1, 5, 3, 4, 1, 2))
	}

	switch s.policy {
	case PolPCT:
		d := tape.Intn(4)
		for i := 0; i < d; i++ {
			s.pctCh = append(s.pctCh, tape.Intn(400))
		}
	case PolStarve:
		s.victim = 1 + tape.Intn(8)
	}

	simhook.SetHandler(s)
	go s.loop()

	func() {
		defer func() {
			if r := recover(); r != nil {
				// the body must not panic: report it as a note and abort
				s.call(msg{kind: mNote, name: "body.panic", text: fmt.Sprintf("%v\n%s", r, debug.Stack())})
			}
		}()
		body(&Env{S: s})
	}()

	s.call(msg{kind: mDone})
	<-s.done
	simhook.SetHandler(nil)
	return s
}

// Attach turns the calling goroutine into the root task of a simulation that
// lasts until the process exits (used inside the real CLI, whose main calls
// os.Exit). OnTick, if set, is called in the scheduler goroutine for every event.
func Attach(tape *Tape, opts Options, onTick func(s *Sched, t *TaskInfo, ev *Event)) *Sched {
	if opts.MaxEvents == 0 {
		opts.MaxEvents = 50000000
	}
	s := &Sched{Tape: tape, opts: opts, msgs: make(chan msg), done: make(chan struct{}),
		byKey: map[any][]*TaskInfo{}, wgs: map[any]int{}, ioCount: map[string]int{}, Faults: map[string]int{}, Probes: map[string]int{}}
	root := &TaskInfo{Idx: 0, Parent: -1, st: tsRunning, arrived: true}
	s.tasks = append(s.tasks, root)
	s.cur = root
	s.live = 1
	s.Tasks = 1
	s.onTick = onTick
	if opts.ForcePolicy {
		s.policy = opts.FixedPolicy
	} else {
		s.policy = Policy(tape.Pick(1, 5, 3, 4, 1, 2))
	}
	switch s.policy {
	case PolPCT:
		d := tape.Intn(4)
		for i := 0; i < d; i++ {
			s.pctCh = append(s.pctCh, tape.Intn(400))
		}
	case PolStarve:
		s.victim = 1 + tape.Intn(8)
	}
	simhook.SetHandler(s)
	go s.loop()
	return s
}

// ---------------------------------------------------------------- task side

func (s *Sched) call(m msg) cmd {
	raceDisable()
	m.reply = make(chan cmd, 1)
	s.msgs <- m
	c := <-m.reply
	raceEnable()
	return c
}

// Spawn implements simhook.Handler.
func (s *Sched) Spawn(key any) { s.call(msg{kind: mSpawn, key: key}) }

// Start implements simhook.Handler.
func (s *Sched) Start(key any) { s.call(msg{kind: mStart, key: key}) }

// Exit implements simhook.Handler.
func (s *Sched) Exit(key any) { s.call(msg{kind: mExit, key: key}) }

// Join implements simhook.Handler.
func (s *Sched) Join() { s.call(msg{kind: mJoin}) }

// WGAdd, WGDone, WGWait implement simhook.Handler: the WaitGroup operations of the
// library, in the order the code performs them. Add and Done are not yield points.
func (s *Sched) WGAdd(w any, n int) { s.call(msg{kind: mWGAdd, key: w, a: int64(n)}) }
func (s *Sched) WGDone(w any)       { s.call(msg{kind: mWGDone, key: w}) }
func (s *Sched) WGWait(w any)       { s.call(msg{kind: mWGWait, key: w}) }

// Point implements simhook.Handler.
func (s *Sched) Point(name string, arg int) {
	c := s.call(msg{kind: mPoint, name: name, a: int64(arg)})
	if c.kind == cmdFail {
		panic(c.err)
	}
}

// Spin implements simhook.Handler.
func (s *Sched) Spin(name string, seen, want int32) {
	c := s.call(msg{kind: mSpin, name: name, a: int64(seen), b: int64(want)})
	if c.kind == cmdAbort {
		panic(ErrAbort)
	}
}

// Corrupt implements simhook.Handler.
func (s *Sched) Corrupt(site string, buf []byte) {
	c := s.call(msg{kind: mCorrupt, name: site, a: int64(len(buf))})
	if c.xor != 0 && c.off >= 0 && c.off < len(buf) {
		buf[c.off] ^= c.xor
	}
}

// Recovered implements simhook.Handler.
func (s *Sched) Recovered(r any) {
	if r == ErrAbort {
		return
	}
	if _, ok := r.(*InjectedError); ok {
		s.call(msg{kind: mRecovered, name: "injected", text: fmt.Sprint(r)})
		return
	}
	s.call(msg{kind: mRecovered, name: panicSite(), text: fmt.Sprint(r)})
}

// WrapWriteCloser implements simhook.Handler (used by the CLI only).
func (s *Sched) WrapWriteCloser(w io.WriteCloser) io.WriteCloser {
	return &wrapSink{s: s, w: w}
}

// WrapReadCloser implements simhook.Handler (used by the CLI only).
func (s *Sched) WrapReadCloser(r io.ReadCloser) io.ReadCloser {
	return &wrapSource{s: s, r: r}
}

// panicSite extracts "file.go:line func" of the frame that panicked, from
// inside a deferred function that is handling the panic.
func panicSite() string {
	st := string(debug.Stack())
	lines := strings.Split(st, "\n")
	// find the last "panic(" frame, the next function frame that is not runtime is the site
	idx := -1
	for i, l := range lines {
		if strings.HasPrefix(l, "panic(") {
			idx = i
		}
	}
	if idx < 0 {
		return "unknown"
	}
	for i := idx + 2; i+1 < len(lines); i += 2 {
		fn := lines[i]
		loc := strings.TrimSpace(lines[i+1])
		if strings.HasPrefix(fn, "runtime.") || strings.HasPrefix(fn, "runtime/") {
			continue
		}
		if j := strings.LastIndex(loc, "/"); j >= 0 {
			loc = loc[j+1:]
		}
		if j := strings.Index(loc, " "); j >= 0 {
			loc = loc[:j]
		}
		if j := strings.Index(fn, "("); j >= 0 {
			// keep package.func
			fn = fn[:strings.LastIndex(fn, "(")]
		}
		if j := strings.LastIndex(fn, "/"); j >= 0 {
			fn = fn[j+1:]
		}
		return loc + " " + fn
	}
	return "unknown"
}

// Yield is a yield point for harness-owned code running inside a task.
func (e *Env) Yield(name string, arg int) { e.S.Point(name, arg) }

// Intn draws from the tape on behalf of a running task.
func (e *Env) Intn(n int) int { return e.S.call(msg{kind: mDraw, a: int64(n)}).val }

// Note records a free-form note in the trace (not a yield point).
func (e *Env) Note(name string, a int) { e.S.call(msg{kind: mNote, name: name, a: int64(a)}) }

// Sync runs fn in the scheduler goroutine (access to monitor state, fault
// counters and probes from a task without sharing memory).
func (e *Env) Sync(fn func()) { e.S.call(msg{kind: mQuery, fn: fn}) }

// Go starts fn as a new simulated task (a child of the running task).
func (e *Env) Go(fn func()) {
	key := new(int)
	e.S.call(msg{kind: mSpawn, key: key, name: "driver"})
	go func() {
		e.S.Start(key)
		defer e.S.Exit(key)
		fn()
	}()
}

// Join parks the running task until the tasks it started have exited.
func (e *Env) Join() { e.S.Join() }

// IO is the yield point of a simulated sink/source call.
func (s *Sched) IO(obj, op string, n int) IOAction {
	if s == nil || simhook.Current() != simhook.Handler(s) {
		return IOAction{}
	}
	return s.call(msg{kind: mIO, name: op, text: obj, a: int64(n)}).io
}

// ---------------------------------------------------------------- scheduler side

func (s *Sched) event(t *TaskInfo, name string, a, b int64) {
	s.Seq++
	ev := Event{Seq: s.Seq, Task: t.Idx, Name: name, A: a, B: b}
	s.Sig = (s.Sig ^ uint64(t.Idx+1)*0x9E3779B97F4A7C15 ^ HashString(name)) * 1099511628211
	if s.opts.KeepTrace {
		s.Trace = append(s.Trace, ev)
	}
	if s.onTick != nil {
		s.onTick(s, t, &ev)
	}
	if s.opts.Hooks.OnEvent != nil && s.Viol == nil {
		if err := s.opts.Hooks.OnEvent(s, t, &ev); err != nil {
			s.violate("monitor", err.Error())
		}
	}
	if s.Seq > s.opts.MaxEvents && s.Viol == nil {
		s.violate("step-budget", fmt.Sprintf("more than %d events", s.opts.MaxEvents))
	}
}

func (s *Sched) violate(class, detail string) {
	if s.Viol == nil {
		s.Viol = &Violation{Class: class, Detail: detail, Seq: s.Seq}
	}
	s.aborting = true
}

// Fault counts a fault that actually fired.
func (s *Sched) knownWG(w any) bool { _, ok := s.wgs[w]; return ok }

func (s *Sched) Fault(kind string) { s.Faults[kind]++ }

// Probe counts a rare condition that was reached.
func (s *Sched) Probe(name string) { s.Probes[name]++ }

// Task returns the task with the given index.
func (s *Sched) Task(i int) *TaskInfo { return s.tasks[i] }

func (s *Sched) loop() {
	raceDisable()
	defer func() {
		raceEnable()
		close(s.done)
	}()

	for {
		var m msg
		if s.rootDone != nil {
			// tear down after the root has finished: bounded in real time (a task stuck for real
			// inside the library is the business of the CPU watchdog, not of this loop)
			select {
			case m = <-s.msgs:
			case <-time.After(time.Until(s.rootDoneAt.Add(20 * time.Second))):
				s.rootDone <- cmd{}
				return
			}
		} else {
			m = <-s.msgs
		}

		if m.kind == mStart {
			t := s.pendingStart(m.key)
			if t == nil {
				// a goroutine the scheduler was never told about: let it run
				m.reply <- cmd{}
				continue
			}
			t.arrived = true
			t.reply = m.reply
			if s.aborting {
				s.release(t, cmd{})
			}
			continue
		}

		if (m.kind == mExit && len(s.byKey[m.key]) == 0) || (m.kind == mWGDone && !s.knownWG(m.key)) {
			// the last hook calls of a goroutine that belongs to no task of this simulation: a block
			// task of an earlier, unsimulated run of the library in this process (reference runs)
			// that was descheduled between its Done and its exit hook. Its key (the address of its
			// own result slot, which it still references) cannot be a key of this simulation.
			s.Foreign++
			m.reply <- cmd{}
			continue
		}

		if s.aborting {
			// free-running tear down: nothing parks any more
			switch m.kind {
			case mSpin:
				m.reply <- cmd{kind: cmdAbort}
			case mDone:
				if s.live > 1 {
					// tasks are still unwinding: the scheduler outlives the root until each of them
					// has made its last hook call (a later simulation must never hear from them)
					s.rootDone = m.reply
					s.rootDoneAt = time.Now()
					continue
				}
				m.reply <- cmd{}
				return
			case mExit:
				for _, x := range s.byKey[m.key] {
					if x.st != tsExited {
						x.st = tsExited
						s.live--
						break
					}
				}
				m.reply <- cmd{}
				if s.rootDone != nil && s.live <= 1 {
					s.rootDone <- cmd{}
					return
				}
			case mDraw:
				m.reply <- cmd{val: s.Tape.Intn(int(m.a))}
			case mQuery:
				m.fn()
				m.reply <- cmd{}
			default:
				m.reply <- cmd{}
			}
			continue
		}

		if s.cur == nil {
			// a hook call while nobody holds the baton: the harness lost track
			s.violate("harness-lost-baton", fmt.Sprintf("message kind %d name %q while no task is running", m.kind, m.name))
			m.reply <- cmd{}
			s.abortAll()
			continue
		}

		if m.kind == mDone {
			if s.live != 1 {
				s.violate("task-leak", fmt.Sprintf("%d tasks still running when the root (the caller of the library) finished: a call returned before its block tasks had ended", s.live-1))
				s.abortAll()
				s.rootDone = m.reply
				s.rootDoneAt = time.Now()
				continue
			}
			m.reply <- cmd{}
			return
		}

		yielded := s.handle(m)

		if s.aborting {
			s.abortAll()
			continue
		}

		if yielded {
			s.pick()
		}
	}
}

// handle processes one message of the running task; it returns true when the
// task has given up the baton.
func (s *Sched) handle(m msg) bool {
	t := s.cur

	switch m.kind {
	case mSpawn:
		c := &TaskInfo{Idx: len(s.tasks), Parent: t.Idx, Key: m.key, st: tsNew, prio: 0}
		if s.policy == PolPCT {
			c.prio = 1000 + s.Tape.Intn(1000)
		}
		s.tasks = append(s.tasks, c)
		s.byKey[m.key] = append(s.byKey[m.key], c)
		t.children++
		s.live++
		s.Tasks++
		if s.live > s.MaxLive {
			s.MaxLive = s.live
		}
		if m.name == "driver" {
			// a harness-level task (a caller of the library), not a block task
			s.event(t, "spawn.driver", int64(c.Idx), 0)
		} else {
			s.event(t, "spawn", int64(c.Idx), 0)
		}
		m.reply <- cmd{}
		return false
	case mRecovered:
		s.Recovereds = append(s.Recovereds, Recovered{Task: t.Idx, Text: m.text, Site: m.name})
		s.event(t, "recovered", 0, 0)
		m.reply <- cmd{}
		return false
	case mDraw:
		m.reply <- cmd{val: s.Tape.Intn(int(m.a))}
		return false
	case mQuery:
		m.fn()
		m.reply <- cmd{}
		return false
	case mNote:
		if m.name == "body.panic" {
			s.Notes = append(s.Notes, m.text)
			s.violate("body-panic", firstLine(m.text))
		} else {
			s.event(t, m.name, m.a, 0)
		}
		m.reply <- cmd{}
		return false
	case mCorrupt:
		off, xor, do := 0, byte(0), false
		if s.opts.Hooks.OnCorrupt != nil {
			off, xor, do = s.opts.Hooks.OnCorrupt(s, t, m.name, int(m.a))
		}
		c := cmd{}
		if do {
			c.off, c.xor = off, xor
			s.event(t, m.name, int64(off), int64(xor))
		}
		m.reply <- c
		return false
	case mExit:
		if m.key != t.Key {
			s.violate("harness-exit-key", fmt.Sprintf("exit of a task that is not the running task %d", t.Idx))
			m.reply <- cmd{}
			return false
		}
		s.event(t, "exit", 0, 0)
		t.st = tsExited
		s.dropKey(t)
		s.live--
		s.tasks[t.Parent].children--
		m.reply <- cmd{}
		s.cur = nil
		s.clearIdle()
	case mJoin:
		t.reply = m.reply
		t.st = tsJoin
		t.waitWG = nil
		t.point = "join"
		s.event(t, "join", int64(t.children), 0)
		s.cur = nil
	case mWGAdd:
		s.wgs[m.key] += int(m.a)
		m.reply <- cmd{}
		return false
	case mWGDone:
		s.wgs[m.key]--
		s.event(t, "wg.done", int64(s.wgs[m.key]), 0)
		if s.wgs[m.key] < 0 {
			s.violate("waitgroup-negative", fmt.Sprintf("task %d: WaitGroup counter below zero", t.Idx))
		}
		m.reply <- cmd{}
		return false
	case mWGWait:
		t.reply = m.reply
		t.st = tsJoin
		t.waitWG = m.key
		t.point = "wg.wait"
		s.event(t, "wg.wait", int64(s.wgs[m.key]), 0)
		s.cur = nil
	case mPoint:
		t.reply = m.reply
		t.st = tsParked
		t.point = m.name
		if m.a > 0 && !strings.HasSuffix(m.name, ".release") && (strings.HasPrefix(m.name, "enc.") || strings.HasPrefix(m.name, "dec.")) {
			// only the points of the block tasks carry a block id (seq.* carry a stage index)
			t.BlockID = int(m.a)
		}
		s.event(t, m.name, m.a, 0)
		if s.opts.Hooks.OnPoint != nil && !strings.HasSuffix(m.name, ".release") {
			t.pendingFail = s.opts.Hooks.OnPoint(s, t, m.name, int(m.a))
		}
		s.cur = nil
		s.clearIdle()
	case mSpin:
		t.reply = m.reply
		t.st = tsSpin
		t.point = m.name
		t.BlockID = int(m.b) + 1
		seen, want := int32(m.a), int32(m.b)
		// A blocked spinner will reload when resumed. Until some non-spin event
		// happens nothing can have changed, so that reload is pruned (idle).
		// When every live task is idle nobody can ever run again: exact deadlock.
		t.idle = seen != want && seen != -1
		t.seen, t.want = seen, want
		s.event(t, m.name, m.a, m.b)
		s.cur = nil
	case mIO:
		t.reply = m.reply
		t.st = tsParked
		t.point = m.text + "." + m.name
		k := s.ioCount[t.point]
		s.ioCount[t.point] = k + 1
		act := IOAction{}
		if s.opts.Hooks.OnIO != nil {
			act = s.opts.Hooks.OnIO(s, t, m.text, m.name, k, int(m.a))
		}
		s.event(t, t.point, m.a, int64(act.Kind)<<32|int64(act.N))
		t.pendingIO = act
		s.cur = nil
		s.clearIdle()
	}

	return true
}

// pendingStart returns the oldest task spawned with key whose goroutine has not arrived yet.
func (s *Sched) pendingStart(key any) *TaskInfo {
	for _, t := range s.byKey[key] {
		if !t.arrived {
			return t
		}
	}
	return nil
}

func (s *Sched) dropKey(t *TaskInfo) {
	l := s.byKey[t.Key]
	for i, x := range l {
		if x == t {
			l = append(l[:i], l[i+1:]...)
			break
		}
	}
	if len(l) == 0 {
		delete(s.byKey, t.Key)
	} else {
		s.byKey[t.Key] = l
	}
}

func firstLine(s string) string {
	if i := strings.IndexByte(s, '\n'); i >= 0 {
		return s[:i]
	}
	return s
}

func (s *Sched) clearIdle() {
	for _, t := range s.tasks {
		if t.st == tsSpin {
			t.idle = false
		}
	}
}

// release hands the baton to t.
func (s *Sched) release(t *TaskInfo, c cmd) {
	t.st = tsRunning
	r := t.reply
	t.reply = nil
	r <- c
}

func (s *Sched) abortAll() {
	s.cur = nil
	for _, t := range s.tasks {
		switch t.st {
		case tsParked, tsJoin:
			c := cmd{}
			c.io = t.pendingIO
			t.pendingIO = IOAction{}
			s.release(t, c)
		case tsSpin:
			s.release(t, cmd{kind: cmdAbort})
		case tsNew:
			if t.arrived {
				s.release(t, cmd{})
			}
		}
	}
}

func (s *Sched) runnable() []*TaskInfo {
	var rs []*TaskInfo
	for _, t := range s.tasks {
		switch t.st {
		case tsNew, tsParked:
			rs = append(rs, t)
		case tsSpin:
			if !t.idle {
				rs = append(rs, t)
			}
		case tsJoin:
			if (t.waitWG == nil && t.children == 0) || (t.waitWG != nil && s.wgs[t.waitWG] <= 0) {
				rs = append(rs, t)
			}
		}
	}
	return rs
}

func (s *Sched) pick() {
	rs := s.runnable()

	if len(rs) == 0 {
		if s.live > 0 {
			var w []string
			for _, t := range s.tasks {
				if t.st != tsExited {
					w = append(w, fmt.Sprintf("task%d(block %d)@%s seen=%d want=%d", t.Idx, t.BlockID, t.point, t.seen, t.want))
				}
			}
			s.violate("deadlock", "no task can ever make progress: "+strings.Join(w, "; "))
			s.abortAll()
		}
		return
	}

	var t *TaskInfo

	if len(rs) == 1 {
		t = rs[0]
	} else {
		s.Decisions++
		switch s.policy {
		case PolLowest:
			t = rs[0]
		case PolUniform:
			t = rs[s.Tape.Intn(len(rs))]
		case PolSticky:
			// keep the last task with probability 3/4
			for _, r := range rs {
				if r.Idx == s.last {
					t = r
				}
			}
			if t == nil || s.Tape.Intn(4) == 3 {
				t = rs[s.Tape.Intn(len(rs))]
			}
		case PolPCT:
			for _, c := range s.pctCh {
				if c == s.Decisions {
					// priority change point: demote the task that ran last
					s.tasks[s.last].prio = -s.Decisions
				}
			}
			t = rs[0]
			for _, r := range rs {
				if r.prio > t.prio {
					t = r
				}
			}
		case PolNewest:
			t = rs[len(rs)-1]
			if s.Tape.Intn(8) == 7 {
				t = rs[s.Tape.Intn(len(rs))]
			}
		case PolStarve:
			var cand []*TaskInfo
			for _, r := range rs {
				if r.Idx%8 != s.victim%8 || r.Idx == 0 {
					cand = append(cand, r)
				}
			}
			if len(cand) == 0 {
				cand = rs
			} else if len(cand) < len(rs) {
				s.Probe("sched.starved")
			}
			t = cand[s.Tape.Intn(len(cand))]
		}
	}

	if !t.arrived {
		// the goroutine exists (Spawn happened) but has not reached Start yet
		for !t.arrived {
			m := <-s.msgs
			if (m.kind == mExit && len(s.byKey[m.key]) == 0) || (m.kind == mWGDone && !s.knownWG(m.key)) {
				// last hook calls of a goroutine of an earlier, unsimulated run (see loop)
				s.Foreign++
				m.reply <- cmd{}
				continue
			}
			if m.kind != mStart {
				panic(fmt.Sprintf("sim: message %d from a task while nobody holds the baton", m.kind))
			}
			x := s.pendingStart(m.key)
			if x == nil {
				m.reply <- cmd{}
				continue
			}
			x.arrived = true
			x.reply = m.reply
		}
	}

	if t.st == tsNew {
		s.event(t, "start", 0, 0)
	}

	s.last = t.Idx
	s.cur = t
	c := cmd{}

	if t.st == tsParked {
		c.io = t.pendingIO
		t.pendingIO = IOAction{}
		if t.pendingFail != nil {
			c.kind = cmdFail
			c.err = t.pendingFail
			t.pendingFail = nil
		}
	}

	s.release(t, c)
}
