package sim

import "time"

// Shrink minimises a tape while test keeps returning true (same violation
// class). It is the usual choice-sequence reduction: delete chunks, zero
// chunks, lower single values, truncate the tail. Budget: maxRuns executions
// or the deadline, whichever comes first.
func Shrink(tape []uint32, test func([]uint32) bool, maxRuns int, budget time.Duration) ([]uint32, int) {
	best := append([]uint32(nil), tape...)
	runs := 0
	deadline := time.Now().Add(budget)
	try := func(c []uint32) bool {
		if runs >= maxRuns || time.Now().After(deadline) {
			return false
		}
		runs++
		if test(c) {
			best = append([]uint32(nil), c...)
			return true
		}
		return false
	}
	done := func() bool { return runs >= maxRuns || time.Now().After(deadline) }

	// drop trailing zeros: an exhausted tape yields zeros anyway
	trim := func() {
		n := len(best)
		for n > 0 && best[n-1] == 0 {
			n--
		}
		best = best[:n]
	}
	trim()

	improved := true
	for improved && !done() {
		improved = false

		// 1. truncate the tail (binary search on length)
		for cut := len(best) / 2; cut >= 1 && !done(); cut /= 2 {
			for len(best) > cut {
				if !try(best[:len(best)-cut]) {
					break
				}
				improved = true
			}
		}

		// 2. zero chunks
		for size := max(len(best)/2, 1); size >= 1 && !done(); size /= 2 {
			for i := 0; i+size <= len(best) && !done(); i += size {
				allZero := true
				for _, v := range best[i : i+size] {
					if v != 0 {
						allZero = false
						break
					}
				}
				if allZero {
					continue
				}
				c := append([]uint32(nil), best...)
				for j := i; j < i+size; j++ {
					c[j] = 0
				}
				if try(c) {
					improved = true
				}
			}
			if size == 1 {
				break
			}
		}

		// 3. delete chunks
		for size := max(len(best)/4, 1); size >= 1 && !done(); size /= 2 {
			for i := 0; i+size <= len(best) && !done(); {
				c := append([]uint32(nil), best[:i]...)
				c = append(c, best[i+size:]...)
				if try(c) {
					improved = true
				} else {
					i += size
				}
			}
			if size == 1 {
				break
			}
		}

		// 4. lower single values: 0 was tried; try 1, half, minus one
		for i := 0; i < len(best) && !done(); i++ {
			v := best[i]
			if v <= 1 {
				continue
			}
			for _, nv := range []uint32{1, v / 2, v - 1} {
				if nv >= best[i] {
					continue
				}
				c := append([]uint32(nil), best...)
				c[i] = nv
				if try(c) {
					improved = true
				}
			}
		}
		trim()
	}

	return best, runs
}
