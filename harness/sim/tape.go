// Package sim is the deterministic simulation kernel: choice tape, task
// scheduler, simulated sink/source, fault plan plumbing, tape shrinker.
package sim

import (
	"fmt"
	"os"
	"sync/atomic"
)

// splitmix64 PRNG (public domain algorithm).
type SplitMix struct{ s uint64 }

func NewSplitMix(seed uint64) *SplitMix { return &SplitMix{s: seed} }

func (r *SplitMix) Next() uint64 {
	r.s += 0x9E3779B97F4A7C15
	z := r.s
	z = (z ^ (z >> 30)) * 0xBF58476D1CE4E5B9
	z = (z ^ (z >> 27)) * 0x94D049BB133111EB
	return z ^ (z >> 31)
}

func (r *SplitMix) Intn(n int) int {
	if n <= 1 {
		return 0
	}
	return int(r.Next() % uint64(n))
}

// Mix hashes a list of integers into one seed.
func Mix(vs ...uint64) uint64 {
	h := uint64(0x243F6A8885A308D3)
	for _, v := range vs {
		h ^= v + 0x9E3779B97F4A7C15 + (h << 6) + (h >> 2)
		h = NewSplitMix(h).Next()
	}
	return h
}

// HashString is FNV-1a 64.
func HashString(s string) uint64 {
	h := uint64(14695981039346656037)
	for i := 0; i < len(s); i++ {
		h ^= uint64(s[i])
		h *= 1099511628211
	}
	return h
}

// Tape is the single source of choices of a case. In record mode values come
// from a PRNG and are appended; in replay mode they come from the recorded
// slice (exhausted => 0, out of range => mod n). 0 is always the simplest
// choice, so shrinking towards zeros simplifies the case.
type Tape struct {
	rng    *SplitMix
	Vals   []uint32
	pos    int
	replay bool
	// Over counts draws past the end of a replayed tape.
	Over int
	log  *os.File
}

func NewRecordTape(seed uint64) *Tape {
	t := &Tape{rng: NewSplitMix(seed)}
	if name := os.Getenv("KSIM_TAPE_LOG"); name != "" {
		// crash forensics: every draw is appended to a side file as it happens
		t.log, _ = os.OpenFile(name, os.O_WRONLY|os.O_APPEND|os.O_CREATE, 0o644)
	}
	return t
}

func NewReplayTape(vals []uint32) *Tape {
	return &Tape{Vals: vals, replay: true}
}

func (t *Tape) Replaying() bool { return t.replay }

// Pos is the number of draws so far.
func (t *Tape) Pos() int { return t.pos }

// Used returns the consumed prefix of the tape.
func (t *Tape) Used() []uint32 {
	if t.pos > len(t.Vals) {
		return t.Vals
	}
	return t.Vals[:t.pos]
}

// Intn draws a value in [0,n).
func (t *Tape) Intn(n int) int {
	if n <= 0 {
		panic(fmt.Sprintf("tape: Intn(%d)", n))
	}
	if t.replay {
		var v uint32
		if t.pos < len(t.Vals) {
			v = t.Vals[t.pos]
		} else {
			t.Over++
		}
		t.pos++
		return int(uint64(v) % uint64(n))
	}
	v := uint32(0)
	if n > 1 {
		v = uint32(t.rng.Next() % uint64(n))
	}
	t.Vals = append(t.Vals, v)
	t.pos++
	if t.log != nil {
		t.log.Write([]byte{byte(v), byte(v >> 8), byte(v >> 16), byte(v >> 24)})
	}
	return int(v)
}

// Range draws in [lo,hi] inclusive.
func (t *Tape) Range(lo, hi int) int { return lo + t.Intn(hi-lo+1) }

// Chance is true with probability num/den; false is the simple choice.
func (t *Tape) Chance(num, den int) bool { return t.Intn(den) >= den-num }

// Pick draws an index with the given integer weights; index 0 is the simple choice.
func (t *Tape) Pick(weights ...int) int {
	tot := 0
	for _, w := range weights {
		tot += w
	}
	v := t.Intn(tot)
	for i, w := range weights {
		if v < w {
			return i
		}
		v -= w
	}
	return len(weights) - 1
}

// Seed draws a 31-bit sub-seed (for bulk data generated off-tape).
func (t *Tape) Seed() uint64 { return uint64(t.Intn(1 << 31)) }

// Heartbeat is called by a property between the independent executions of one
// case (variants, cuts, ranges): the worker's CPU watchdog bounds each execution,
// not their sum. It is a counter read by the watchdog goroutine.
var heartbeat atomic.Int64

func Heartbeat() { heartbeat.Add(1) }

// Heartbeats returns the number of heartbeats so far.
func Heartbeats() int64 { return heartbeat.Load() }
