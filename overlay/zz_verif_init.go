//go:build verif

package main

// Added to v2/app at build time by the C19 check (go build -overlay); it only adds
// this file, it never replaces a file of the repository.
import _ "github.com/flanglet/kanzi-go/v2/verifharness/cliinit"
