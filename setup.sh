#!/bin/sh
# Build the simulation worker once (warms the Go build cache); every check rebuilds it
# from /repo's current working tree anyway. Offline: no module outside /repo and /verif is used.
set -e
cd "$(dirname "$0")"
export GOFLAGS=-mod=mod GOPROXY=off GOSUMDB=off GOTOOLCHAIN=local
command -v go1.26.8 >/dev/null || { echo "go1.26.8 not found on PATH" >&2; exit 2; }
mkdir -p bin evidence replays
(cd harness && go1.26.8 build -tags verif -o ../bin/simrun ./cmd/simrun)
echo "setup ok"
